"""Drive the real aggregator (Aggregator + AggregatorMessageHandlers + AggregatorDispatcher + sqlite) in one process.

One in-memory database per process; every trace uses its own engine name and run ids, so nothing has to be re-created
between traces.  Publishers are mocks (as in the repository's own aggregator tests); everything else is the real code."""
from __future__ import annotations

import asyncio
from unittest.mock import AsyncMock, Mock


class AggWorld:
    def __init__(self, interval: float = 1.0):
        from openpectus.aggregator.data import database
        import openpectus.aggregator.data.models as DMdl
        self.database = database
        self.DMdl = DMdl
        self.loop = asyncio.new_event_loop()
        self.interval = interval
        self.channels = {}
        self.fresh_db()

    def fresh_db(self):
        """a new empty in-memory database and a new aggregator on it (tables stay small, queries stay fast)"""
        if self.database._engine is not None:
            self.database._engine.dispose()
        self.database.configure_db("sqlite:///:memory:")
        self.DMdl.DBModel.metadata.create_all(self.database._engine)
        self.boot()

    # -- life cycle -------------------------------------------------------------------------------------------
    def publisher(self):
        p = Mock()
        for name in ("publish_process_units_changed", "publish_control_state_changed", "publish_method_state_changed",
                     "publish_run_log_changed", "publish_error_log_changed", "publish_method_changed",
                     "publish_active_users_changed"):
            setattr(p, name, AsyncMock())
        return p

    def boot(self):
        from openpectus.aggregator.aggregator import Aggregator
        from openpectus.aggregator.aggregator_message_handlers import AggregatorMessageHandlers
        from openpectus.protocol.aggregator_dispatcher import AggregatorDispatcher
        self.dispatcher = AggregatorDispatcher()
        self.webpush = Mock(publish_message=AsyncMock(), publish_test_message=AsyncMock())
        self.pub = self.publisher()
        self.agg = Aggregator(self.dispatcher, self.pub, self.webpush)
        self.handlers = AggregatorMessageHandlers(self.agg)
        self.channels = {}

    def run(self, coro):
        async def wrap():
            r = await coro
            await asyncio.sleep(0)      # let the fire-and-forget publisher tasks finish
            return r
        return self.loop.run_until_complete(wrap())

    def close(self):
        self.loop.close()

    # -- engine side ------------------------------------------------------------------------------------------
    def register_msg(self, computer: str, uod: str):
        import openpectus.protocol.engine_messages as EM
        from openpectus import __version__
        return EM.RegisterEngineMsg(computer_name=computer, uod_name=uod, uod_author_name="a", uod_author_email="e",
                                    uod_filename="f", location="l", engine_version=__version__)

    def register(self, computer: str, uod: str):
        return self.run(self.dispatcher._register_handler(self.register_msg(computer, uod)))

    def connect_ws(self, engine_id: str):
        from fastapi_websocket_rpc.schemas import RpcResponse
        response = RpcResponse[str | None](result=engine_id, result_type=None)
        ch = Mock(close=AsyncMock(), other=Mock(get_engine_id_async=AsyncMock(return_value=response)))
        self.run(self.dispatcher._on_delayed_client_connect(ch))
        if engine_id in self.dispatcher._engine_id_channel_map and self.dispatcher._engine_id_channel_map[engine_id] is ch:
            self.channels[engine_id] = ch
        return ch

    def disconnect_ws(self, engine_id: str):
        ch = self.dispatcher._engine_id_channel_map.get(engine_id)
        if ch is not None:
            self.run(self.dispatcher.on_client_disconnect(ch))

    def send(self, msg):
        return self.run(self.dispatcher.dispatch_message(msg))

    def uod_info(self, engine_id: str, tags: list[str], roles=()):
        import openpectus.aggregator.models as Mdl
        import openpectus.protocol.engine_messages as EM
        readings = [Mdl.ReadingInfo(discriminator="reading", tag_name=t, valid_value_units=None, entry_data_type=None,
                                    command_options=None, commands=[]) for t in tags]
        return self.send(EM.UodInfoMsg(engine_id=engine_id, readings=readings, commands=[],
                                       uod_definition=Mdl.UodDefinition(commands=[], system_commands=[], tags=[]),
                                       plot_configuration=Mdl.PlotConfiguration.empty(), hardware_str="hw",
                                       required_roles=set(roles), data_log_interval_seconds=self.interval))

    # -- projection -------------------------------------------------------------------------------------------
    def project(self, engine_id: str, run_ids: dict[str, str], tags: list[str]):
        """run_ids: spec run name -> real run id"""
        from sqlalchemy import select, func
        D = self.DMdl
        back = {v: k for k, v in run_ids.items()}
        ed = self.agg.get_registered_engine_data(engine_id)
        out = {"reg": ed is not None, "run": "none", "lastP": 0, "cur": {t: 0 for t in tags}}
        if ed is not None:
            if ed.has_run():
                out["run"] = back.get(ed.run_data.run_id, ed.run_data.run_id)
                out["lastP"] = int(ed.run_data.latest_persisted_tick_time or 0)
            for t in tags:
                tv = ed.tags_info.get(t)
                out["cur"][t] = int(tv.tick_time) if tv is not None else 0
        # the database part, read with plain SQL on the engine's connection (the projection runs after every event)
        with self.database._engine.connect() as c:
            from sqlalchemy import text
            row = c.execute(text('SELECT run_id FROM "RecentEngines" WHERE engine_id = :e'), {"e": engine_id}).fetchone()
            out["dbEngine"] = "absent" if row is None else ("none" if row[0] is None else back.get(row[0], row[0]))
            out["recentRuns"] = {n: 0 for n in run_ids}
            out["plotLogs"] = {n: 0 for n in run_ids}
            out["rows"] = {n: [] for n in run_ids}
            for (rid, n) in c.execute(text('SELECT run_id, count(*) FROM "RecentRuns" WHERE engine_id = :e GROUP BY run_id'),
                                      {"e": engine_id}):
                if rid in back:
                    out["recentRuns"][back[rid]] = n
            for (rid, n) in c.execute(text('SELECT run_id, count(*) FROM "PlotLogs" WHERE engine_id = :e GROUP BY run_id'),
                                      {"e": engine_id}):
                if rid in back:
                    out["plotLogs"][back[rid]] = n
            q = text('SELECT p.run_id, e.name, v.value_int, v.value_float, v.tick_time FROM "PlotLogEntryValues" v '
                     'JOIN "PlotLogEntries" e ON v.plot_log_entry_id = e.id JOIN "PlotLogs" p ON e.plot_log_id = p.id '
                     'WHERE p.engine_id = :e')
            for rid, n, vi, vf, tt in c.execute(q, {"e": engine_id}):
                if rid in back:
                    v = vi if vi is not None else vf
                    out["rows"][back[rid]].append([n, int(v) if v is not None else -1, int(tt)])
            for n in out["rows"]:
                out["rows"][n].sort()
        return out
