"""C32: role-based access on every unit / run endpoint.  Access.tla (laws of the access relation, TLC) and AccessTrace.tla,
which judges recorded requests to the real aggregator application: the FastAPI app is wired by the real
AggregatorServer.setup_fastapi, requests go through fastapi.testclient, the user's roles are supplied by overriding the
`user_roles` security dependency (what a validated token would yield).  Every route whose path names a unit or a run is
enumerated from the application itself, so a new endpoint is covered (or the check fails for lack of a request body)."""
from __future__ import annotations

import itertools
import os
import re

from .. import core, tlc
from ..aggdriver import AggWorld

ROLES = ["r1", "r2", "r3"]
UNITS = {"open": [], "one": ["r1"], "two": ["r1", "r2"]}           # unit key -> required roles
EARLIER_ROLES = {"open": ["r3"], "one": [], "two": ["r3"]}       # required roles of an earlier session of the online units
RECONNECTED = {"closed-since": ([], ["r1"]), "moved-since": (["r2"], ["r1"]), "opened-since": (["r1"], [])}
USER_ROLES = [[], ["r1"], ["r2"], ["r3"], ["r1", "r3"], ["r2", "r3"]]
# offline units: key -> the required roles of their successive sessions (the last one counts)
OFFLINE = {"same": [["r1"], ["r1"]], "moved": [["r1"], ["r2"]], "opened": [["r1", "r2"], []], "closed": [[], ["r2"]],
           "narrowed": [["r1", "r2"], ["r2"]]}
SECRET_TAG = "SecretTag"

BODIES = {
    "execute_command": {"command": "Mark: x", "source": "manually_entered"},
    "execute_control_button_command": {"command": "Start", "source": "unit_button"},
    "save_method": {"lines": [{"id": "a", "content": "Mark: a"}], "version": 0, "last_author": "x"},
    "register_active_user": None, "unregister_active_user": None, "force_run_log_line": None, "cancel_run_log_line": None,
}


def _app(world: AggWorld, dbfile: str):
    from fastapi.routing import APIRoute
    import openpectus.aggregator.deps as agg_deps
    from openpectus.aggregator.aggregator_server import AggregatorServer
    from openpectus.aggregator.data import database
    srv = object.__new__(AggregatorServer)          # the production wiring without key files / uvicorn
    srv.title, srv.host, srv.port = "verif", "127.0.0.1", 0
    srv.frontend_dist_dir = os.path.dirname(dbfile)
    srv.db_path = dbfile
    srv.dispatcher, srv.publisher, srv.webpush_publisher = world.dispatcher, world.pub, world.webpush
    srv.aggregator = world.agg
    srv.shutdown_callback = None
    agg_deps._server = world.agg
    srv.setup_fastapi([])
    srv.fastapi.add_middleware(database.DBSessionMiddleware)
    return srv.fastapi, APIRoute


def _world(scratch):
    import openpectus.aggregator.models as Mdl
    import openpectus.protocol.engine_messages as EM
    from openpectus.aggregator.data import database
    world = AggWorld()
    dbfile = str(scratch / "access.sqlite")
    if database._engine is not None:
        database._engine.dispose()
    database.configure_db(f"sqlite:///{dbfile}")
    world.DMdl.DBModel.metadata.create_all(database._engine)
    world.boot()
    ids, runs = {}, {}
    for key, req in UNITS.items():
        comp = f"c-{key}"
        eid = world.agg.create_engine_id(world.register_msg(comp, "uod"))
        # an earlier session of the same engine under other required roles (its UOD was changed since): what the database
        # remembers of that session must not decide who sees the unit now
        world.register(comp, "uod")
        world.connect_ws(eid)
        world.uod_info(eid, [SECRET_TAG], roles=EARLIER_ROLES[key])
        world.send(EM.RunStartedMsg(engine_id=eid, run_id=f"run-{key}-earlier", started_tick=0.5))
        world.send(EM.RunStoppedMsg(engine_id=eid, run_id=f"run-{key}-earlier", runlog=Mdl.RunLog.empty(),
                                    method_state=Mdl.MethodState(started_line_ids=[], executed_line_ids=[], injected_line_ids=[],
                                                                 failed_line_ids=[]), archive=None, archive_filename=None))
        world.disconnect_ws(eid)
        world.register(comp, "uod")
        ids[key] = eid
        world.connect_ws(eid)
        world.uod_info(eid, [SECRET_TAG], roles=req)
        ed = world.agg.get_registered_engine_data(eid)
        ed.uod_definition = Mdl.UodDefinition(commands=[], system_commands=[],
                                              tags=[Mdl.TagDefinition(name=SECRET_TAG + "-" + key, unit=None)]) \
            if hasattr(Mdl, "TagDefinition") else ed.uod_definition
        # one finished run (a recent run with the unit's roles) and one active run
        rid = f"run-{key}-old"
        world.send(EM.RunStartedMsg(engine_id=eid, run_id=rid, started_tick=1.0))
        world.send(EM.TagsUpdatedMsg(engine_id=eid, run_id=rid,
                                     tags=[Mdl.TagValue(name=SECRET_TAG, tick_time=2.0, value=4242, value_unit=None)]))
        world.send(EM.RunStoppedMsg(engine_id=eid, run_id=rid, runlog=Mdl.RunLog.empty(),
                                    method_state=Mdl.MethodState(started_line_ids=[], executed_line_ids=[], injected_line_ids=[],
                                                                 failed_line_ids=[]), archive=None, archive_filename=None))
        runs[key] = rid
        world.send(EM.RunStartedMsg(engine_id=eid, run_id=f"run-{key}-now", started_tick=3.0))
        world.send(EM.TagsUpdatedMsg(engine_id=eid, run_id=f"run-{key}-now",
                                     tags=[Mdl.TagValue(name=SECRET_TAG, tick_time=4.0, value=4242, value_unit=None)]))
    # units that are offline now (listed from the database): their required roles are those of their last session
    offline = {}
    for key, sessions in OFFLINE.items():
        comp = f"c-off-{key}"
        eid = world.agg.create_engine_id(world.register_msg(comp, "uod"))
        for n, req in enumerate(sessions):
            world.register(comp, "uod")
            world.connect_ws(eid)
            world.uod_info(eid, [SECRET_TAG], roles=req)
            rid = f"run-off-{key}-{n}"
            world.send(EM.RunStartedMsg(engine_id=eid, run_id=rid, started_tick=1.0))
            world.send(EM.RunStoppedMsg(engine_id=eid, run_id=rid, runlog=Mdl.RunLog.empty(),
                                        method_state=Mdl.MethodState(started_line_ids=[], executed_line_ids=[], injected_line_ids=[],
                                                                     failed_line_ids=[]), archive=None, archive_filename=None))
            world.disconnect_ws(eid)
        offline[key] = (eid, sessions[-1])
    world.offline = offline
    # units that are online again under NEW required roles and have not run since: the database row of their last session still
    # carries the old roles; the live engine's roles decide
    reconnected = {}
    for key, (before, now) in RECONNECTED.items():
        comp = f"c-re-{key}"
        eid = world.agg.create_engine_id(world.register_msg(comp, "uod"))
        world.register(comp, "uod")
        world.connect_ws(eid)
        world.uod_info(eid, [SECRET_TAG], roles=before)
        world.disconnect_ws(eid)
        world.register(comp, "uod")
        world.connect_ws(eid)
        world.uod_info(eid, [SECRET_TAG], roles=now)
        reconnected[key] = (eid, now)
    world.reconnected = reconnected
    return world, dbfile, ids, runs


def _state_digest(world, ids):
    out = []
    for key, eid in ids.items():
        ed = world.agg.get_registered_engine_data(eid)
        out.append((key, sorted(ed.active_users.keys()), sorted(c.name for c in ed.contributors), ed.method.version if ed.method else None))
    return repr(out)


def _collect(ctx, scratch):
    from fastapi.testclient import TestClient
    import openpectus.aggregator.routers.auth as auth
    world, dbfile, ids, runs = _world(scratch)
    app, APIRoute = _app(world, dbfile)
    current = {"roles": set()}
    # authentication on, with the token validation replaced by a parser of "role,role" test tokens: the real
    # user_roles / user_name / user_id dependencies run on every request
    auth.use_auth = True
    auth.decode_token_or_fail = lambda tok: {"roles": [r for r in (tok or "").split(",") if r], "oid": "tester-id",
                                             "preferred_username": "tester@example.invalid"}
    rpc_calls = []
    orig_rpc = world.dispatcher.rpc_call

    async def rpc(engine_id, message):
        rpc_calls.append(engine_id)
        import openpectus.protocol.aggregator_messages as AM
        import openpectus.protocol.messages as M
        return M.SuccessMessage()
    world.dispatcher.rpc_call = rpc
    client = TestClient(app, raise_server_exceptions=False)
    routes = []
    for r in app.routes:
        if isinstance(r, APIRoute) and re.search(r"\{(unit_id|engine_id|run_id)\}", r.path):
            for m in sorted(r.methods - {"HEAD", "OPTIONS"}):
                routes.append((m, r.path, r.name))
    ev = []
    missing = []
    for (method, path, name), (key, required), roles in itertools.product(routes, UNITS.items(), USER_ROLES):
        current["roles"] = set(roles)
        url = path.replace("{unit_id}", ids[key]).replace("{engine_id}", ids[key]).replace("{run_id}", runs[key]) \
            .replace("{line_id}", "some-line")
        if "{" in url:
            raise core.MachineryFailure(f"unknown path parameter in {path}")
        kw = {}
        if method == "POST":
            if name not in BODIES:
                missing.append(name)
                continue
            if BODIES[name] is not None:
                kw["json"] = BODIES[name]
        if name == "get_process_values" or name == "get_all_process_values":
            pass
        del rpc_calls[:]
        before = _state_digest(world, ids)
        resp = client.request(method, url, headers={"X-Identity": ",".join(roles)}, **kw)
        body = resp.text
        ev.append({"e": "request", "route": f"{method} {path}", "method": method, "required": required, "roles": roles,
                   "status": resp.status_code, "effect": bool(rpc_calls) or _state_digest(world, ids) != before,
                   "leaked": ("4242" in body) or (SECRET_TAG in body) or (ids[key] in body and resp.status_code == 200 and False)})
        # undo allowed side effects so every request starts from the same state
        for eid in ids.values():
            ed = world.agg.get_registered_engine_data(eid)
            ed.active_users.clear()
            ed.contributors.clear()
    if missing:
        raise core.MachineryFailure(f"no request body known for POST endpoints {sorted(set(missing))}: add them to BODIES")
    # listings
    for roles in USER_ROLES:
        current["roles"] = set(roles)
        resources = [{"id": ids[k], "required": req} for k, req in UNITS.items()] + \
            [{"id": eid, "required": req} for eid, req in world.reconnected.values()]
        off = [{"id": eid, "required": req} for eid, req in world.offline.values()]
        for path in ("/api/process_units", "/api/process_units/all_process_values"):
            resp = client.get(path, headers={"X-Identity": ",".join(roles)})
            text = resp.text
            res = resources + (off if path == "/api/process_units" else [])
            ev.append({"e": "listing", "route": "GET " + path, "roles": roles, "resources": res,
                       "returned": [r["id"] for r in res if r["id"] in text]})
        resp = client.get("/api/recent_runs/", headers={"X-Identity": ",".join(roles)})
        ev.append({"e": "listing", "route": "GET /api/recent_runs/", "roles": roles,
                   "resources": [{"id": runs[k], "required": req} for k, req in UNITS.items()],
                   "returned": [runs[k] for k in UNITS if runs[k] in resp.text]})
    # the method-editor service: the language server reads unit data by engine id without any identity
    import openpectus.lsp.lsp_analysis as la
    for (key, required), roles in itertools.product(UNITS.items(), USER_ROLES):
        current["roles"] = set(roles)
        for fname, call in (("lsp fetch_uod_info", lambda: la.fetch_uod_info(ids[key])),
                            ("lsp fetch_process_value (hover)", lambda: la.fetch_process_value(ids[key], SECRET_TAG))):
            try:
                answered = call() is not None
            except Exception:
                answered = False
            ev.append({"e": "editor", "route": fname, "required": required, "roles": roles, "answered": answered})
    world.dispatcher.rpc_call = orig_rpc
    auth.use_auth = False
    return {"id": "access", "ev": ev}, routes


def run(ctx: core.Ctx) -> core.Outcome:
    core.setup_repo_imports()
    res = tlc.run_tlc("Access", "Access.cfg", workers=4, timeout=600)
    if not res.ok:
        raise core.MachineryFailure(f"design spec Access violates {res.violated}")
    scratch = tlc.new_scratch("access")
    try:
        trace, routes = _collect(ctx, scratch)
    finally:
        from openpectus.aggregator.data import database
        if database._engine is not None:
            database._engine.dispose()
        tlc.rm_scratch(scratch)
    verdicts, stats = core.validate_traces("AccessTrace", [trace])
    viols = []
    for tid, vs in verdicts.items():
        for clause, line in vs:
            ev = trace["ev"][line - 1]
            viols.append(core.Violation(key=clause, case=f"{ev.get('route')} required={ev.get('required')} roles={ev.get('roles')}",
                                        detail=str(ev)[:500], replay={"event": ev}))
    statuses = {}
    for e in trace["ev"]:
        if e["e"] == "request":
            statuses[e["status"]] = statuses.get(e["status"], 0) + 1
    cov = dict(states=res.distinct, transitions=res.generated, design_spec="Access", routes=len(routes),
               traces_validated_against_impl=len(trace["ev"]), samples=[trace["ev"][0], trace["ev"][len(trace["ev"]) // 2]],
               requests=sum(1 for e in trace["ev"] if e["e"] == "request"), listings=sum(1 for e in trace["ev"] if e["e"] == "listing"),
               editor_calls=sum(1 for e in trace["ev"] if e["e"] == "editor"), statuses={str(k): v for k, v in statuses.items()},
               route_list=[f"{m} {p}" for m, p, _ in routes], **stats)
    return core.Outcome(level="model_checking", coverage=cov, violations=viols, assumptions=[
        "authentication is switched on with the JWT validation (decode_token_or_fail) replaced by a parser of test tokens; the role / name / id dependencies themselves run for real",
        "the engine side of rpc calls is a stub that records the call; the application wiring is AggregatorServer.setup_fastapi"])
