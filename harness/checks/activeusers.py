"""C37: active-user list.  ActiveUsers.tla exhaustively + every edge of its state graph and random histories replayed on the
real FromFrontend wired to the real FrontendPublisher (subscribe hook, websocket close hook); ActiveUsersTrace.tla compares."""
from __future__ import annotations

import random
from unittest.mock import AsyncMock, Mock

from .. import core, dotgraph, tlaval, tlc
from ..aggdriver import AggWorld

UNITS = ["e1", "e2"]


class World(AggWorld):
    def publisher(self):
        from openpectus.aggregator.frontend_publisher import FrontendPublisher
        return FrontendPublisher()


def _history(world: World, acts, tid, k):
    from openpectus.aggregator.frontend_publisher import PubSubTopic
    ids = {}
    for u in UNITS:
        comp = f"c{k}{u}"
        world.register(comp, "u")
        ids[u] = world.agg.create_engine_id(world.register_msg(comp, "u"))
    ff = world.agg.from_frontend
    notifier = world.pub.pubsub_endpoint.notifier
    evs = []
    for name, args in acts:
        ev = {"a": name}
        exc = "none"
        try:
            if name == "Subscribe":
                c, u = args
                ev["c"], ev["u"] = c, u
                world.run(notifier.subscribe(f"{tid}-{c}", [f"{PubSubTopic.DEAD_MAN_SWITCH}/{u}", f"{ids['e1']}/{PubSubTopic.ACTIVE_USERS}"],
                                             AsyncMock()))
            elif name == "Register":
                e, u = args
                ev["e"], ev["u"] = e, u
                world.run(ff.register_active_user(ids[e], u, u.upper()))
            elif name == "Unregister":
                e, u = args
                ev["e"], ev["u"] = e, u
                world.run(ff.unregister_active_user(ids[e], u))
            elif name == "Close":
                ev["c"] = args[0]
                world.run(world.pub.on_disconnect(Mock(id=f"{tid}-{args[0]}")))
            else:
                raise core.MachineryFailure("unknown action " + name)
        except core.MachineryFailure:
            raise
        except Exception as ex:
            exc = type(ex).__name__
        active = {}
        for u in UNITS:
            ed = world.agg.get_registered_engine_data(ids[u])
            active[u] = sorted(ed.active_users.keys()) if ed is not None else []
        ev["post"] = {"active": active, "exc": exc}
        evs.append(ev)
    return {"id": tid, "ev": evs}


def _random(rnd, n):
    acts, live, used, active = [], {}, 0, {u: set() for u in UNITS}
    for _ in range(n):
        k = rnd.random()
        if (k < 0.3 or not live) and used < 3:
            used += 1
            c, u = f"c{used}", rnd.choice(["u1", "u2"])
            live[c] = u
            acts.append(("Subscribe", [c, u]))
        elif k < 0.6 and live:
            u = rnd.choice(sorted(set(live.values())))
            e = rnd.choice(UNITS)
            active[e].add(u)
            acts.append(("Register", [e, u]))
        elif k < 0.7 and any(active.values()):
            e = rnd.choice([x for x in UNITS if active[x]])
            u = rnd.choice(sorted(active[e]))
            active[e].discard(u)
            acts.append(("Unregister", [e, u]))
        elif live:
            c = rnd.choice(sorted(live))
            u = live.pop(c)
            if u not in live.values():
                for e in UNITS:
                    active[e].discard(u)
            acts.append(("Close", [c]))
    return acts


def run(ctx: core.Ctx) -> core.Outcome:
    cfg = "ActiveUsers.cfg" if ctx.quick else "ActiveUsersDeep.cfg"
    scratch = tlc.new_scratch("au")
    try:
        res = tlc.dump_graph("ActiveUsers", cfg, scratch / "g.dot", timeout=900)
        if not res.ok:
            raise core.MachineryFailure(f"design spec ActiveUsers violates {res.violated}")
        g = dotgraph.Graph.load(scratch / "g.dot")
    finally:
        tlc.rm_scratch(scratch)
    paths, total = g.edge_cover_paths(max_len=12, seed=ctx.seed)
    world = World()
    traces = []
    try:
        for i, (_l, nodes) in enumerate(paths):
            acts = []
            for n in nodes[1:]:
                name, args = g.var(n, "last")
                acts.append((str(name), [tlaval.to_py(a) for a in args]))
            traces.append(_history(world, acts, f"g{i}", i))
            world.fresh_db() if i % 100 == 99 else world.boot()
        rnd = random.Random(ctx.seed)
        for i in range(200 if ctx.quick else 3000):
            traces.append(_history(world, _random(rnd, 14), f"rnd{i}", 100000 + i))
            world.fresh_db() if i % 100 == 99 else world.boot()
    finally:
        world.close()
    verdicts, tstats = core.validate_traces("ActiveUsersTrace", traces)
    by_id = {t["id"]: t for t in traces}
    viols = []
    for tid, vs in verdicts.items():
        for clause, line in vs:
            t = by_id[tid]
            hist = [{k: v for k, v in e.items() if k != "post"} for e in t["ev"][:line]]
            viols.append(core.Violation(key=clause, case=tid, detail=f"history={hist} -> {t['ev'][line - 1]['post']}",
                                        replay={"trace": t, "line": line}))
    multi = sum(1 for t in traces if len({e["c"] for e in t["ev"] if e["a"] == "Subscribe"}) >= 2)
    cov = dict(states=res.distinct, transitions=res.generated, traces_validated_against_impl=len(traces), graph_edges=total,
               graph_edges_replayed=sum(len(p[0]) for p in paths), histories_with_several_connections=multi,
               events_validated=sum(len(t["ev"]) for t in traces), exhaustive=True, **tstats,
               samples=[[{k: v for k, v in e.items() if k != "post"} for e in traces[len(traces) // 2]["ev"]]])
    return core.Outcome(level="model_checking", coverage=cov, violations=viols, assumptions=[
        "a user registers as active only while they have a live connection; connection ids are never reused",
        "real FrontendPublisher and pub/sub notifier, no real websocket"])
