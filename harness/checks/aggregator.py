"""C28 / C29 / C30: aggregator run bookkeeping and plot-log persistence.  Aggregator.tla exhaustively (TLC) + every edge of its
state graph and long random histories replayed on the real aggregator over sqlite; AggregatorTrace.tla compares every step."""
from __future__ import annotations

import random

from .. import core, dotgraph, tlaval, tlc
from ..aggdriver import AggWorld

TAGS = ["A", "B"]
_COUNTER = [0]


def _run_history(world: AggWorld, acts, tid):
    import openpectus.aggregator.models as Mdl
    import openpectus.protocol.engine_messages as EM
    _COUNTER[0] += 1
    k = _COUNTER[0]
    comp, uod = f"c{k}", "u"
    eid = world.agg.create_engine_id(world.register_msg(comp, uod))
    rids = {"r1": f"{eid}-run1", "r2": f"{eid}-run2"}
    evs = []
    for name, args in acts:
        ev = {"a": name}
        exc = "none"
        try:
            if name in ("EngStart", "EngStop"):
                pass
            elif name == "Connect":
                world.register(comp, uod)
                world.connect_ws(eid)
                world.uod_info(eid, TAGS)
            elif name == "Disconnect":
                world.disconnect_ws(eid)
            elif name == "ShutdownBoot":
                world.agg.shutdown()
                world.boot()
            elif name == "CrashBoot":
                world.boot()
            elif name == "RunStarted":
                ev["id"] = args[0]
                world.send(EM.RunStartedMsg(engine_id=eid, run_id=rids[args[0]], started_tick=1.0))
            elif name == "RunStopped":
                ev["id"] = args[0]
                world.send(EM.RunStoppedMsg(engine_id=eid, run_id=rids[args[0]], runlog=Mdl.RunLog.empty(),
                                            method_state=Mdl.MethodState(started_line_ids=[], executed_line_ids=[],
                                                                         injected_line_ids=[], failed_line_ids=[]),
                                            archive=None, archive_filename=None))
            elif name == "Tags":
                msg_run, upd = args
                ev["msgRun"], ev["upd"] = msg_run, upd
                tags = [Mdl.TagValue(name=g, tick_time=float(t), value=int(t), value_unit=None) for g, t in sorted(upd.items())]
                world.send(EM.TagsUpdatedMsg(engine_id=eid, tags=tags, run_id=None if msg_run == "none" else rids[msg_run]))
            else:
                raise core.MachineryFailure("unknown action " + name)
        except core.MachineryFailure:
            raise
        except Exception as ex:      # behaviour of the code under test
            exc = type(ex).__name__
        ev["post"] = world.project(eid, rids, TAGS)
        ev["post"]["exc"] = exc
        evs.append(ev)
    # leave no engine registered under this id (the next history uses a fresh engine id anyway)
    return {"id": tid, "ev": evs}


def _random_history(rnd, n, tags=True):
    """a plausible engine life with disconnects / restarts / duplicated and late messages thrown in"""
    acts = []
    started, stopped, eng, nstart, conn, t = [], [], None, 0, False, 0
    for _ in range(n):
        k = rnd.random()
        if not conn:
            acts.append(("Connect", []))
            conn = True
            continue
        if k < 0.10 and eng is None and nstart < 2:
            nstart += 1
            eng = f"r{nstart}"
            started.append(eng)
            acts += [("EngStart", []), ("RunStarted", [eng])]
        elif k < 0.16 and eng is not None:
            stopped.append(eng)
            acts += [("EngStop", []), ("RunStopped", [eng])]
            eng = None
        elif k < 0.24:
            acts.append(("Disconnect", []))
            conn = False
        elif k < 0.30:
            acts.append((rnd.choice(["ShutdownBoot", "ShutdownBoot", "CrashBoot"]), []))
            conn = False
        elif k < 0.36 and started:
            acts.append(("RunStarted", [rnd.choice(started)]))        # duplicate / late
        elif k < 0.40 and stopped:
            acts.append(("RunStopped", [rnd.choice(stopped)]))
        elif not tags:
            continue
        else:
            t += rnd.choice([0, 1, 1, 2, 3])
            tt = max(1, t - (rnd.choice([0, 0, 0, 1, 2])))             # sometimes a stale report
            tags = rnd.choice([["A"], ["B"], ["A", "B"]])
            msg_run = eng if rnd.random() < 0.85 else rnd.choice(["none"] + started) if started else "none"
            acts.append(("Tags", [msg_run or "none", {g: max(1, tt - (0 if rnd.random() < 0.8 else 1)) for g in tags}]))
    return acts


def run(ctx: core.Ctx) -> core.Outcome:
    out, hit = core.cached("aggregator", ctx, lambda: _run(ctx))
    out.coverage["corpus_from_cache"] = hit
    return out


def _run(ctx: core.Ctx) -> core.Outcome:
    cfg = "Aggregator.cfg" if ctx.quick else "AggregatorDeep.cfg"
    scratch = tlc.new_scratch("agg")
    try:
        res = tlc.dump_graph("Aggregator", cfg, scratch / "g.dot", timeout=1800, workers=1)
        if not res.ok:
            raise core.MachineryFailure(f"design spec Aggregator violates {res.violated}")
        g = dotgraph.Graph.load(scratch / "g.dot")
    finally:
        tlc.rm_scratch(scratch)
    paths, total_edges = g.edge_cover_paths(max_len=12 if ctx.quick else 16, seed=ctx.seed)
    world = AggWorld(interval=1.0)
    traces = []
    try:
        for i, (_l, nodes) in enumerate(paths):
            acts = []
            for n in nodes[1:]:
                name, args = g.var(n, "last")
                acts.append((str(name), [tlaval.to_py(a) for a in args]))
            traces.append(_run_history(world, acts, f"g{i}"))
            world.fresh_db() if i % 50 == 49 else world.boot()
        rnd = random.Random(ctx.seed)
        for i in range(150 if ctx.quick else 3000):
            traces.append(_run_history(world, _random_history(rnd, 40), f"rnd{i}"))
            world.fresh_db() if i % 50 == 49 else world.boot()
        # life-cycle only histories (no tag traffic): long chains of start / stop / disconnect / restart / resends
        for i in range(300 if ctx.quick else 5000):
            traces.append(_run_history(world, _random_history(rnd, 60, tags=False), f"life{i}"))
            world.fresh_db() if i % 50 == 49 else world.boot()
    finally:
        world.close()
    verdicts, tstats = core.validate_traces("AggregatorTrace", traces)
    by_id = {t["id"]: t for t in traces}
    viols = []
    for tid, vs in verdicts.items():
        for clause, line in vs:
            t = by_id[tid]
            hist = [{k: v for k, v in e.items() if k != "post"} for e in t["ev"][:line]]
            viols.append(core.Violation(key=clause, case=tid, detail=f"history={hist} -> post={t['ev'][line - 1]['post']}",
                                        replay={"trace": t, "line": line}))
    with_rows = sum(1 for t in traces if any(any(e["post"]["rows"].values()) for e in t["ev"]))
    restarts = sum(1 for t in traces if any(e["a"] in ("Disconnect", "ShutdownBoot", "CrashBoot") for e in t["ev"]))
    cov = dict(states=res.distinct, transitions=res.generated, traces_validated_against_impl=len(traces),
               graph_edges=total_edges, graph_edges_replayed=sum(len(p[0]) for p in paths),
               events_validated=sum(len(t["ev"]) for t in traces), histories_with_recorded_rows=with_rows,
               histories_with_disconnect_or_restart=restarts, exhaustive=True, design_depth=res.depth, **tstats,
               samples=[[{k: v for k, v in e.items() if k != "post"} for e in traces[len(traces) // 2]["ev"]],
                        traces[-1]["ev"][-1]])
    return core.Outcome(level="model_checking", coverage=cov, violations=viols, assumptions=[
        "one engine; registration + websocket connect + UodInfo (readings A, B) are one step",
        "tag values are integers equal to their report time; data-log interval 1",
        "publishers are mocks; the database is in-memory sqlite",
        "a RunStopped for a run other than the open one follows the code (the open run is stored and closed): not judged"])
