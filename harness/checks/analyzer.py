"""C19 / C20: the method editor's semantic analysis.  Analyzer.tla enumerates instruction lines with the verdict the analysis owes
(TLC initial states); every line is put into a small method and linted by the real lsp_analysis.lint against the definitions the
real engine publishes (UOD lsp definition + engine command definitions, served by a stub aggregator); methods the analysis
accepts are executed on the real engine.  AnalyzerTrace.tla judges both."""
from __future__ import annotations

import random
import re

from .. import core, dotgraph, tlaval, tlc

ENGINE_ID = "verif-engine"


class _Doc:
    def __init__(self, source, version=1):
        self.source, self.version = source, version
        self.lines = source.splitlines(keepends=True)


def _published():
    """the definitions as EngineMessageBuilder.create_uod_info publishes them"""
    from ..engdriver import EngineRun
    r = EngineRun([])
    try:
        d = r.uod.create_lsp_definition()
        d.system_commands = r.engine.get_command_definitions()
        tags = {t.name: t for t in r.engine._iter_all_tags()}
        return d, tags
    finally:
        r.close()


def _install_stub_aggregator(uod_def):
    import openpectus.aggregator.deps as agg_deps
    import openpectus.lsp.lsp_analysis as la

    class Data:
        uod_definition = uod_def

        class tags_info:
            map = {}

    class Agg:
        def get_registered_engine_data(self, engine_id):
            return Data() if engine_id == ENGINE_ID else None
    agg_deps._server = Agg()
    la.create_analysis_input.cache_clear()


def _method_for(kind, line, second=None):
    body = ["Mark: pre", line]
    offending = [1]
    if kind == "cond" or (kind == "junk" and line.strip().startswith(("Watch", "Alarm", "Macro", "Block"))):
        body.append("    Mark: body")
    if second is not None:
        offending.append(len(body))
        body.append(second[1])
        if second[0] == "cond":
            body.append("    Mark: body2")
    body.append("Mark: post")
    body.append("")
    return body, offending


def _lint(lines):
    import openpectus.lsp.lsp_analysis as la
    from pylsp.lsp import DiagnosticSeverity
    diags = la.lint(_Doc("\n".join(lines)), ENGINE_ID)
    crashed = any(d.get("code") == "Parse error" for d in diags)
    err_lines = sorted({int(d["range"]["start"]["line"]) for d in diags if d.get("severity") == DiagnosticSeverity.Error})
    return crashed, err_lines, diags


def _run_engine(lines):
    """run the accepted method; classify what fails"""
    from ..engdriver import EngineRun
    r = EngineRun(lines)
    failed, reasons = [], []
    try:
        r.control("Start")
        vals = [3.0] * 6 + [0.0] * 4 + [6.0] * 10
        for k in range(20):
            r.tick(0.1, {"In": vals[k]})
            snap = r.events[-1]
            if snap.get("err") or snap.get("exc", "none") != "none":
                break
        err = r.engine._last_error
        ms = r.engine.method_manager.get_method_state()
        failed = sorted(ms.failed_line_ids)
        if r.engine.has_error_state() or failed:
            msg = (str(err) if err is not None else "") + " " + repr(getattr(err, "__cause__", ""))
            low = msg.lower()
            if "unit" in low or "incompatible" in low or "cannot compare" in low or "compare" in low:
                reasons.append("unit")
            elif "argument" in low or "invalid" in low and "instruction" not in low:
                reasons.append("argument")
            elif "unknown" in low or "not found" in low or "undefined" in low or "no tag" in low or "instruction" in low:
                reasons.append("name")
            else:
                reasons.append("other:" + msg[:80])
    finally:
        r.close()
    return failed, reasons, (str(err)[:160] if reasons else "")


def run(ctx: core.Ctx) -> core.Outcome:
    core.setup_repo_imports()
    scratch = tlc.new_scratch("an")
    try:
        res = tlc.dump_graph("Analyzer", "Analyzer.cfg", scratch / "g.dot", timeout=900, workers=1)
        if not res.ok:
            raise core.MachineryFailure(f"Analyzer.tla violates {res.violated}")
        g = dotgraph.Graph.load(scratch / "g.dot")
        cases = []
        for n in g.labels:
            st = g.state(n)
            cases.append((str(st["kind"]), st["line"], bool(st["mustFlag"]), tlaval.to_py(st["parts"])))
    finally:
        tlc.rm_scratch(scratch)
    uod_def, tags = _published()
    # the spec's name universe must be what the engine publishes
    spec_tags = {"In", "Level", "Out1", "Run Counter", "Block Time"}
    spec_cmds = {"Short", "Set1", "Set2", "Mark", "Wait", "Info"}
    pub_tags = {t.name for t in uod_def.tags}
    pub_cmds = {c.name for c in uod_def.commands + uod_def.system_commands}
    if not spec_tags <= pub_tags or not spec_cmds <= pub_cmds:
        raise core.MachineryFailure(f"names of Analyzer.tla not published by the engine: {spec_tags - pub_tags} {spec_cmds - pub_cmds}")
    if {"Inn", "Levle", "Qzqzq", "Qz"} & pub_tags or {"Shrot", "Zzzzzz", "Se"} & pub_cmds:
        raise core.MachineryFailure("an 'undefined' name of Analyzer.tla is published by the engine")
    _install_stub_aggregator(uod_def)
    rnd = random.Random(ctx.seed)
    cases.sort(key=lambda c: (c[0], c[1]))
    evs, runs = [], 0
    pairs = [(rnd.choice(cases), rnd.choice(cases)) for _ in range(600 if ctx.quick else 6000)]
    for (kind, line, must, parts), second in [(c, None) for c in cases] + pairs:
        lines, offending = _method_for(kind, line, (second[0], second[1]) if second else None)
        musts = [must] + ([second[2]] if second else [])
        want = [ln for ln, m in zip(offending, musts) if m]
        crashed, err_lines, diags = _lint(lines)
        site = kind if second is None else f"{kind}+{second[0]}"
        evs.append({"e": "lint", "kinds": site, "lines": lines, "offending": want, "errorLines": err_lines, "crashed": crashed,
                    "site": _site(kind, parts, second), "diag": [str(d.get("code")) for d in diags][:6]})
        if second is None and not crashed and not err_lines and (ctx.tier != "quick" or runs < 400):
            runs += 1
            failed, reasons, why = _run_engine(lines)
            evs.append({"e": "run", "kinds": kind, "lines": lines, "accepted": True, "failed": failed, "reasons": reasons,
                        "why": why, "site": _site(kind, parts, None)})
    traces = [{"id": f"chunk{i}", "ev": evs[i:i + 500]} for i in range(0, len(evs), 500)]
    verdicts, tstats = core.validate_traces("AnalyzerTrace", traces)
    by_id = {t["id"]: t for t in traces}
    viols = []
    for tid, vs in verdicts.items():
        for clause, ln in vs:
            e = by_id[tid]["ev"][ln - 1]
            viols.append(core.Violation(key=clause, case=" / ".join(e["lines"]), detail=str({k: v for k, v in e.items() if k != "lines"})[:500],
                                        replay={"event": e}))
    lint_evs = [e for e in evs if e["e"] == "lint"]
    cov = dict(evaluations=len(evs), distinct_nontrivial=len({tuple(e["lines"]) for e in lint_evs if e["offending"] or e["kinds"].startswith("junk")}),
               rule="every line of the TLA+ grammar Analyzer.tla (TLC initial states: tag x operator x value x unit, command x argument, "
                    "junk) alone in a method, plus random pairs; non-trivial = distinct method texts that contain a line the analysis "
                    "must flag or a junk line; accepted methods are additionally executed on the engine",
               states=res.distinct, transitions=res.generated, design_spec="Analyzer", lints=sum(1 for e in evs if e["e"] == "lint"),
               accepted_methods_run=runs, must_flag=sum(1 for c in cases if c[2]), published_tags=len(pub_tags),
               published_commands=len(pub_cmds), **tstats, samples=[cases[0][1], cases[len(cases) // 2][1], cases[-1][1]])
    return core.Outcome(level="exploration", coverage=cov, violations=viols, assumptions=[
        "the aggregator is a stub that serves the UOD definition the real engine publishes; lint() itself is the real entry point",
        "an error diagnostic anywhere on the offending line counts as reported; other diagnostics are not judged",
        "C20 failure reasons are classified from the engine's error text (name / argument / unit / other)"])


def _site(kind, parts, second):
    """the class of the line: which part is wrong (stable identity for findings)"""
    def one(kind, parts):
        if kind in ("cond", "simulate", "simoff"):
            t = parts.get("tag", "")
            tag = "tag-defined" if t in ("In", "Level", "Out1", "Run Counter", "Block Time") else \
                ("tag-missing" if t == "" else ("tag-short" if len(t) <= 2 else ("tag-close-match" if t in ("Inn", "Levle") else "tag-no-match")))
            extra = ""
            if kind == "cond":
                extra = ("-no-operator" if parts.get("op") == "" else "") + ("-no-value" if parts.get("value") == "" else "")
            if kind == "simulate":
                extra = "-no-value" if parts.get("value") == "" else ""
            return f"{kind}-{tag}{extra}"
        n = parts.get("name", "")
        name = "defined" if n in ("Short", "Set1", "Set2", "Mark", "Wait", "Info") else ("close-match" if n == "Shrot" else ("short" if n == "Se" else "no-match"))
        return f"command-{n if name == 'defined' else name}"
    if second is not None:
        return "two-lines"
    if kind == "junk":
        return "junk-" + (re.sub(r"[^A-Za-z0-9:>#().-]+", "_", parts.get("text", "")) or "blank")
    return one(kind, parts)
