"""C39: the local run archive reads back exactly.  Archive.tla is the table model (rectangular; TLC); the real ArchiverTag writes
archives for tag sets with hostile values (delimiter, escape character, quote, newline, the Mark separator) into a scratch
directory, the files are read back with the archiver's own csv dialect and ArchiveTrace.tla compares row by row."""
from __future__ import annotations

import csv
import itertools
import os
import random
import shutil

from .. import core, tlc

HOSTILE = ["a", "b c", "x,y", "p;q", "q; r", 'say "hi"', "back\\slash", "trail\\", "\\,", "nl\nline", "cr\rx", "tab\tx", "", "é µ", "1,5", "\\\\"]


def _one(archiver_mod, tmp, marks_per_row, extra_values, k):
    from openpectus.lang.exec.tags import Tag, TagCollection
    from openpectus.lang.exec.tags_impl import MarkTag

    class Clock:
        t = 1000.0

        def time(self):
            return Clock.t
    tags = TagCollection()
    mark = MarkTag()
    tags.add(mark)
    plain = Tag("Note", value=None)
    num = Tag("Flow", value=1.5, unit="L/h")
    tags.add(plain)
    tags.add(num)
    arch = archiver_mod.ArchiverTag(lambda: None, lambda: tags, 1.0)
    arch.data_path = tmp
    real_time = archiver_mod.time
    archiver_mod.time = Clock()
    evs = []
    try:
        arch.on_start(f"run{k}")
        path = arch.file_path
        want_rows = []
        for marks, extra in zip(marks_per_row, extra_values):
            for m in marks:
                mark.set_value(m, Clock.t)
            plain.set_value(extra, Clock.t)
            # what the archiver is about to write for the three tags (the Mark tag is reset by being archived)
            want_rows.append([str(mark.get_value() or ""), "" if extra is None else str(extra), f"{1.5:0.5f}"])
            Clock.t += 2.0
            arch.on_tick(Clock.t, 0.1)
        with open(path, newline="", encoding=archiver_mod.encoding) as f:
            lines = list(csv.reader(f, delimiter=archiver_mod.delimiter, quoting=archiver_mod.quoting,
                                    escapechar=archiver_mod.escapechar))
        header = lines[0] if lines else []
        evs.append({"a": "start", "cols": ["Mark", "Note", "Flow [L/h]"], "got": header[1:]})
        data = lines[1:]
        # rows that contain a record separator are read as several records: attribute the surplus to the row at fault
        if len(data) == len(want_rows):
            for w, g in zip(want_rows, data):
                evs.append({"a": "row", "want": [list(x) for x in w], "got": [list(x) for x in g[1:]], "nrows": 1})
        else:
            for w in want_rows:
                evs.append({"a": "row", "want": [list(x) for x in w], "got": [], "nrows": 1 + len(data) - len(want_rows)})
    finally:
        archiver_mod.time = real_time
        try:
            os.remove(path)
        except Exception:
            pass
    return evs


def run(ctx: core.Ctx) -> core.Outcome:
    import openpectus.engine.archiver as archiver_mod
    res = tlc.run_tlc("Archive", "Archive.cfg", workers=4, timeout=600)
    if not res.ok:
        raise core.MachineryFailure(f"design spec Archive violates {res.violated}")
    rnd = random.Random(ctx.seed)
    tmp = str(tlc.new_scratch("arch"))
    traces = []
    try:
        cases = []
        for v in HOSTILE:
            cases.append(([[v]], [None]))             # one mark
            cases.append(([[v, "z"]], ["n"]))         # two marks joined by the separator
            cases.append(([["m"]], [v]))              # hostile value in a plain tag
        for a, b in itertools.product(HOSTILE[:10], repeat=2):
            cases.append(([[a], [b]], [None, "n"]))   # two rows
        for _ in range(100 if ctx.quick else 3000):
            nrows = rnd.randint(1, 3)
            cases.append(([[rnd.choice(HOSTILE) for _ in range(rnd.randint(0, 2))] for _ in range(nrows)],
                          [rnd.choice(HOSTILE + [None]) for _ in range(nrows)]))
        for k, (marks, extra) in enumerate(cases):
            traces.append({"id": f"a{k}", "ev": _one(archiver_mod, tmp, marks, extra, k)})
    finally:
        shutil.rmtree(tmp, ignore_errors=True)
    verdicts, tstats = core.validate_traces("ArchiveTrace", traces)
    by_id = {t["id"]: t for t in traces}
    viols = []
    for tid, vs in verdicts.items():
        for clause, line in vs:
            e = by_id[tid]["ev"][line - 1]
            show = {k: (["".join(x) for x in v] if k in ("want", "got") else v) for k, v in e.items()}
            viols.append(core.Violation(key=clause, case=tid, detail=str(show), replay={"event": e}))
    rows = sum(1 for t in traces for e in t["ev"] if e["a"] == "row")
    cov = dict(evaluations=rows, distinct_nontrivial=len({str(e["want"]) for t in traces for e in t["ev"] if e["a"] == "row"}),
               rule="archives of 1-3 rows with Mark texts (single and joined by the Mark separator) and a plain text tag drawn "
                    "from a hostile value pool (delimiter, escape character, quote, newline, carriage return, tab, unicode, "
                    "empty); distinct = distinct expected rows",
               design_states=res.distinct, **tstats,
               samples=[{k: (["".join(x) for x in v] if k in ("want", "got") else v) for k, v in traces[5]["ev"][-1].items()}])
    return core.Outcome(level="exploration", coverage=cov, violations=viols, assumptions=[
        "the file is read back with csv.reader using the archiver module's own delimiter / quoting / escapechar",
        "the timestamp column is not compared"])
