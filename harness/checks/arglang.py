"""C22: command-argument patterns.  ArgLang.tla defines the documented languages over character sequences; candidate strings
(the documented language + near-misses) are matched with the real patterns and ArgLangTrace.tla judges every result."""
from __future__ import annotations

import itertools
import random
import re

from .. import core

UNIT_SETS = [[], ["kg"], ["L/h", "L"], ["m**2", "%"], ["a|b"], ["a(b", "a.b"], ["s", "min", "h"], ["µS/cm", "$"], ["L h"]]
OPT_SETS = [(["Open", "Closed"], []), (["Closed"], ["VA01", "VA02"]), ([], ["A", "B"]), (["a.b"], ["a(b", "x*"]),
            (["a|b"], ["c"]), (["A B"], ["C"]), (["A"], None), (None, ["A", "B"])]


def _chars(s):
    return list(s)


def _cls(names):
    if any("|" in n for n in names):
        return "pipe-in-name"
    return "plain" if all(re.fullmatch(r"[A-Za-z0-9]+", n) for n in names) else "metachars"


def _num_cases(rnd, quick):
    from openpectus.lang.exec.regex import RegexNumber
    from openpectus.lang.exec.uod import RegexNamedArgumentParser
    out = []
    for units in UNIT_SETS:
        frags = sorted({c for u in units for c in u} | {u for u in units})
        toks = ["0", "5", "12", ".", "-", "+", " ", "\t", "x", "e"] + frags
        cands = set()
        nums = ["5", "-5", "5.", ".5", "5.5", "-.5", "-5.5", "05", "5.5.5", "--5", "-", ".", "", "5e3", "+5", "- 5", "1 2"]
        for n in nums:
            for pre in ("", " ", "\t "):
                for mid in ("", " ", "  ", "\t"):
                    for u in [""] + units + [x[:-1] for x in units] + [x + "x" for x in units] + [x.upper() for x in units] \
                            + [x[:i] + c + x[i + 1:] for x in units for i in range(len(x)) for c in "xX"]:
                        for post in ("", " ", "\n"):
                            cands.add(pre + n + mid + u + post)
        k = 4 if quick else 5
        pool = [t for t in toks]
        for _ in range(1500 if quick else 20000):
            cands.add("".join(rnd.choice(pool) for _ in range(rnd.randint(1, k))))
        cands = sorted(cands)
        if quick:
            rnd.shuffle(cands)
            cands = cands[:900]
        for nonneg, int_only in ((False, False), (True, False), (False, True), (True, True)):
            try:
                rx = RegexNumber(units=units or None, non_negative=nonneg, int_only=int_only)
                parser = RegexNamedArgumentParser(rx)
                derived = parser.get_units()
                exc = None
            except Exception as ex:
                exc = type(ex).__name__
                derived = [exc]
            out.append({"k": "lists", "what": "units", "built": units, "derived": derived, "cls": _cls(units)})
            if exc:
                continue
            for s in cands:
                if "\n" in s and not s.endswith("\n"):
                    continue
                m = re.search(rx, s)
                ev = {"k": "num", "s": _chars(s.replace("\n", " ")) if False else _chars(s), "nonneg": nonneg, "intOnly": int_only,
                      "units": [_chars(u) for u in units], "str": s}
                gd = m.groupdict() if m is not None else {}
                ev["m"] = {"hit": m is not None, "number": _chars(gd.get("number") or ""),
                           "unit": _chars(gd.get("number_unit") or "")}
                out.append(ev)
    return out


def _cat_cases(rnd, quick):
    from openpectus.lang.exec.regex import RegexCategorical
    from openpectus.lang.exec.uod import RegexNamedArgumentParser
    out = []
    for excl, add in OPT_SETS:
        e_, a_ = excl or [], add or []
        try:
            rx = RegexCategorical(exclusive_options=excl, additive_options=add)
            parser = RegexNamedArgumentParser(rx)
            out.append({"k": "lists", "what": "exclusive-options", "built": e_, "derived": parser.get_exclusive_options(),
                        "cls": _cls(e_ + a_)})
            out.append({"k": "lists", "what": "additive-options", "built": a_, "derived": parser.get_additive_options(),
                        "cls": _cls(e_ + a_)})
        except Exception as ex:
            out.append({"k": "lists", "what": "exclusive-options", "built": e_, "derived": [type(ex).__name__], "cls": _cls(e_ + a_)})
            continue
        toks = e_ + a_ + ["+", " ", "x", ""] + sorted({o[:-1] for o in e_ + a_ if len(o) > 1}) \
            + sorted({o[:i] + "x" + o[i + 1:] for o in e_ + a_ for i in range(len(o))})
        cands = {""}
        for n in range(1, 5 if quick else 6):
            for combo in itertools.product(toks, repeat=n):
                cands.add("".join(combo))
                if len(cands) > (4000 if quick else 60000):
                    break
        cands = sorted(cands)
        if quick:
            rnd.shuffle(cands)
            cands = cands[:700]
        for s in cands:
            m = re.search(rx, s)
            ev = {"k": "cat", "s": _chars(s), "excl": [_chars(o) for o in e_], "add": [_chars(o) for o in a_], "str": s}
            ev["m"] = {"hit": m is not None, "option": _chars(m.groupdict().get("option") or "") if m else []}
            out.append(ev)
    return out


def run(ctx: core.Ctx) -> core.Outcome:
    rnd = random.Random(ctx.seed)
    evs = _num_cases(rnd, ctx.quick) + _cat_cases(rnd, ctx.quick)
    # chunk into traces of 500 cases so that a failing clause is reported per chunk with its line
    traces = [{"id": f"chunk{i}", "ev": evs[i:i + 500]} for i in range(0, len(evs), 500)]
    verdicts, tstats = core.validate_traces("ArgLangTrace", traces, max_events=60000, timeout=3000)
    by_id = {t["id"]: t for t in traces}
    viols = []
    for tid, vs in verdicts.items():
        for clause, line in vs:
            e = by_id[tid]["ev"][line - 1]
            small = {k: v for k, v in e.items() if k in ("k", "str", "nonneg", "intOnly", "what", "built", "derived", "cls")}
            small["units/options"] = ["".join(u) for u in e.get("units", [])] or \
                [["".join(o) for o in e.get("excl", [])], ["".join(o) for o in e.get("add", [])]]
            small["match"] = None if e.get("m") is None else {k: (v if k == "hit" else "".join(v)) for k, v in e["m"].items()}
            viols.append(core.Violation(key=clause, case=f"{tid}#{line}", detail=str(small), replay={"event": e}))
    accepted = sum(1 for e in evs if e["k"] != "lists" and e["m"]["hit"])
    distinct = len({(e["k"], e.get("str"), str(e.get("units") or e.get("excl")), e.get("nonneg"), e.get("intOnly")) for e in evs})
    cov = dict(evaluations=len(evs), distinct_nontrivial=distinct, accepted_by_pattern=accepted,
               rule="candidate strings = documented forms (numbers x whitespace x units) + near-misses (truncated / extended / "
                    "upper-cased units, doubled signs, stray characters) + random token strings, for 9 unit lists x 4 number "
                    "flavours and 8 option-list pairs; distinct = distinct (pattern, string) pairs",
               **tstats, samples=[{k: v for k, v in evs[5].items() if k != "s"}, {k: v for k, v in evs[-1].items() if k != "s"}])
    return core.Outcome(level="exploration", coverage=cov, violations=viols, assumptions=[
        "a number without unit, when units were declared, is not judged (statement: 'optionally followed by'; pattern: required)",
        "unit/option names do not start or end with whitespace"])
