"""Lock-step conformance of the real command manager (and the Start/Stop/Restart commands) with the design spec CmdMgr.tla
(adds exact clauses to C06, C10, C11, C13).  TLC model-checks CmdMgr.tla over all request sequences within its bounds and shows
that the spec of the code before fix e60c335a (CmdMgrAsCoded.cfg) violates the instance invariants; the real engine is driven with
every sequence of user requests up to a length and with long random ones; CmdMgrLockTrace.tla steps the model with the same
requests and compares every variable after every tick."""
from __future__ import annotations

import itertools
import random

from .. import core, tlc

UOD = ["Short", "Long", "Forever", "OvA", "OvB", "OvC", "Loop1"]
CTL = ["Start", "Stop", "Restart", "Pause", "Unpause", "Hold", "Unhold"]
METHOD = ["Base: s", "Mark: A", ""]


def _run(schedule, tid):
    """schedule: list (one entry per tick) of lists of request names"""
    from ..engdriver import EngineRun
    r = EngineRun(METHOD)
    ev = []
    ordinal: dict[str, list] = {}
    try:
        for reqs in schedule:
            acc = []
            for name in reqs:
                n0 = len(r.events)
                r.control(name)
                res = [e for e in r.events[n0:] if e["e"] == "req"][-1]["res"]
                acc.append(res == "ok")
            n0 = len(r.events)
            r.tick(0.1, {})
            hooks = []
            for e in r.events[n0:]:
                if e["e"] in ("init", "exec", "finalize"):
                    seen = ordinal.setdefault(e["name"], [])
                    if e["inst"] not in seen:
                        seen.append(e["inst"])
                    hooks.append([e["e"], e["name"], seen.index(e["inst"]) + 1])
            eng = r.engine
            snap = r.events[-1] if r.events[-1]["e"] == "tickEnd" else [e for e in r.events[n0:] if e["e"] == "tickEnd"][-1]
            ev.append({"reqs": list(reqs), "acc": acc, "hooks": hooks, "inst": sorted(r.uod.command_instances.keys()),
                       "execL": [str(c.name) for c in eng._command_manager.cmd_executing],
                       "started": bool(eng._runstate_started), "stopping": bool(eng._runstate_stopping),
                       "paused": bool(eng._runstate_paused), "holding": bool(eng._runstate_holding),
                       "out": _num(r.uod.tags["Out1"].get_value()), "hw": _num(r.hw.mem.get("Out1")),
                       "prev": -1 if eng._prev_state is None or not eng._prev_state.has("Out1") else _num(eng._prev_state.get("Out1").value),
                       "state": snap["state"], "err": bool(eng.has_error_state())})
    finally:
        r.close()
    return {"id": tid, "ev": ev, "schedule": [list(x) for x in schedule]}


def _num(v):
    f = float(v)
    if f != int(f):
        raise core.MachineryFailure(f"non-integer output value {v!r}")
    return int(f)


def _random_schedule(rnd, n):
    out, running = [], False
    for _ in range(n):
        reqs = []
        k = rnd.random()
        if k < 0.45:
            reqs.append(rnd.choice(UOD + UOD + CTL))
            if rnd.random() < 0.3:
                reqs.append(rnd.choice(UOD + CTL))
        out.append(reqs)
    return out


def run_lockstep(ctx: core.Ctx):
    core.setup_repo_imports()
    res = tlc.run_tlc("CmdMgr", "CmdMgr.cfg" if ctx.quick else "CmdMgrDeep.cfg", workers=12, timeout=3000)
    if not res.ok:
        raise core.MachineryFailure(f"design spec CmdMgr violates {res.violated}")
    old = tlc.run_tlc("CmdMgr", "CmdMgrAsCoded.cfg", workers=8, timeout=1200)
    if old.ok:
        raise core.MachineryFailure("CmdMgrAsCoded.cfg (the command manager before fix e60c335a) no longer violates its invariants: "
                                    "the design check has become vacuous")
    pw = tlc.run_tlc("CmdMgr", "CmdMgrPausedWrites.cfg", workers=8, timeout=1200)
    if pw.ok:
        raise core.MachineryFailure("CmdMgrPausedWrites.cfg no longer violates SafeWhilePaused: the model has lost the recorded finding "
                                    "C08.safe-while-paused@command-keeps-writing (or the finding was repaired: then drop this cfg)")
    rnd = random.Random(ctx.seed)
    traces = []
    choices = [[]] + [[x] for x in ["Short", "Long", "OvA", "Loop1"] + CTL]     # (the other commands appear in the random and pair runs)
    prefixes = list(itertools.product(choices, repeat=3))
    if not ctx.quick:       # thorough: also every sequence of four ticks with at most one control command each, after a Long
        prefixes += [(["Long"],) + tuple(x) for x in itertools.product([[]] + [[x] for x in CTL], repeat=4)]
    for n, prefix in enumerate(prefixes):
        # every other run begins with a Start; the tail is random
        tail = _random_schedule(rnd, 10 if ctx.quick else 14)
        traces.append(_run([["Start"]] * (n % 2) + [list(x) for x in prefix] + tail, f"e{n}"))
    for n in range(400 if ctx.quick else 3000):
        traces.append(_run(_random_schedule(rnd, rnd.randint(12, 30)), f"r{n}"))
    # two requests before the same tick, all ordered pairs, in the three situations: stopped, running, right after Stop was requested
    pairs = list(itertools.product(UOD + CTL, repeat=2))
    for n, (a, b) in enumerate(pairs):
        for m, lead in enumerate(([], [["Start"], []], [["Start"], ["Long"], ["Stop"]], [["Start"], ["OvA"], ["Restart"]], [["Start"], ["OvC"], ["OvA"]],
                                  [["Start"], ["Forever"], ["Restart"], []])):
            traces.append(_run(lead + [[a, b]] + [[], [], ["Long"], [], [], [], []], f"p{n}-{m}"))
    verdicts, stats = core.validate_traces("CmdMgrLockTrace", [{"id": t["id"], "ev": t["ev"]} for t in traces], max_events=40000)
    by_id = {t["id"]: t for t in traces}
    viols = []
    for tid, vs in verdicts.items():
        for clause, line in vs:
            t = by_id[tid]
            viols.append(core.Violation(key=clause, case=tid,
                                        detail=f"requests per tick={t['schedule'][:line]} tick#{line} observed={t['ev'][line - 1]}",
                                        replay={"method": METHOD, "schedule": t["schedule"], "line": line, "observed": t["ev"][line - 1]}))
    cov = dict(cmdlock_states=res.distinct, cmdlock_transitions=res.generated, cmdlock_runs=len(traces),
               cmdlock_ticks=sum(len(t["ev"]) for t in traces), cmdlock_as_coded_violates=str(old.violated), cmdlock_paused_writes_violates=str(pw.violated),
               cmdlock_requests=sum(len(e["reqs"]) for t in traces for e in t["ev"]),
               cmdlock_accepted=sum(sum(1 for x in e["acc"] if x) for t in traces for e in t["ev"]),
               cmdlock_hook_calls=sum(len(e["hooks"]) for t in traces for e in t["ev"]))
    return viols, cov, stats
