"""C25: composite hardware transparency.  Composite.tla (split-and-reassemble = per-register reference, all assignments /
orders / values) + every edge of its state graph replayed on the real Composite_Hardware, validated by CompositeTrace.tla."""
from __future__ import annotations

import random

from .. import core, dotgraph, tlaval, tlc

REGS = ["r1", "r2", "r3", "r4"]
LAYERS = ["L1", "L2", "L3", "L4"]


def _mk():
    from openpectus.engine.composite_hardware import Composite_Hardware
    from openpectus.engine.hardware import HardwareLayerBase, Register, RegisterDirection

    class Layer(HardwareLayerBase):
        def __init__(self, name):
            super().__init__()
            self.name = name
            self.cells = {r: f"{name}.{r}" for r in REGS}

        def read(self, r):
            return self.cells[r.name]

        def write(self, value, r):
            self.cells[r.name] = value

    def run(assign, ops, tid):
        layers = {n: Layer(n) for n in LAYERS}
        comp = Composite_Hardware()
        full = {r: assign.get(r, "L1") for r in REGS}
        for r in REGS:
            comp.registers[r] = Register(r, RegisterDirection.Both, hardware=layers[full[r]])
        evs = []
        for name, args in ops:
            if name == "Read":
                seq = args[0]
                try:
                    ret = list(comp.read_batch([comp.registers[r] for r in seq]))
                    # a missing result (None) is a wrong value, not a trace the validator cannot read
                    ret = ["<none>" if v is None else v for v in ret]
                    exc = "none"
                except Exception as ex:      # behaviour of the code under test, not of the harness
                    ret, exc = [], type(ex).__name__
                evs.append({"a": "read", "seq": seq, "ret": ret, "exc": exc})
            else:
                seq, vals = args
                try:
                    comp.write_batch(list(vals), [comp.registers[r] for r in seq])
                    exc = "none"
                except Exception as ex:
                    exc = type(ex).__name__
                evs.append({"a": "write", "seq": seq, "vals": list(vals), "exc": exc,
                            "mem": {n: dict(layers[n].cells) for n in LAYERS}})
        return {"id": tid, "assign": full, "ev": evs}

    return run


def run(ctx: core.Ctx) -> core.Outcome:
    cfgs = ["Composite.cfg", "CompositeWide.cfg"] if ctx.quick else ["CompositeDeep.cfg", "CompositeWide.cfg"]
    runner = _mk()
    traces, states, transitions, edges, replayed = [], 0, 0, 0, 0
    for cfg in cfgs:
        scratch = tlc.new_scratch("comp")
        try:
            res = tlc.dump_graph("Composite", cfg, scratch / "g.dot", timeout=900)
            if not res.ok:
                raise core.MachineryFailure(f"design spec Composite/{cfg} violates {res.violated}")
            g = dotgraph.Graph.load(scratch / "g.dot")
        finally:
            tlc.rm_scratch(scratch)
        states += res.distinct
        transitions += res.generated
        paths, total = g.edge_cover_paths(max_len=4, seed=ctx.seed)
        edges += total
        for i, (_labels, nodes) in enumerate(paths):
            assign = tlaval.to_py(g.var(nodes[0], "assign"))
            ops = []
            for n in nodes[1:]:
                last = g.var(n, "last")
                ops.append((str(last[0]), [tlaval.to_py(a) for a in last[1]]))
            replayed += len(ops)
            traces.append(runner(assign, ops, f"{cfg[:-4]}-{i}"))
    # longer random behaviours (beyond the exhaustive bound): 4 registers, 4 layers, 12 batches with repeats
    rnd = random.Random(ctx.seed)
    for i in range(300 if ctx.quick else 5000):
        assign = {r: rnd.choice(LAYERS) for r in REGS}
        ops = []
        for _ in range(12):
            k = rnd.randint(1, 3)
            if rnd.random() < 0.5:
                ops.append(("Read", [[rnd.choice(REGS) for _ in range(k)]]))
            else:
                seq = rnd.sample(REGS, k)
                ops.append(("Write", [seq, [rnd.choice("ab") for _ in seq]]))
        traces.append(runner(assign, ops, f"rnd-{i}"))
    verdicts, tstats = core.validate_traces("CompositeTrace", traces)
    by_id = {t["id"]: t for t in traces}
    viols = []
    for tid, vs in verdicts.items():
        for clause, line in vs:
            t = by_id[tid]
            viols.append(core.Violation(key=clause, case=tid,
                                        detail=f"assign={t['assign']} event {line}: {t['ev'][line - 1]}",
                                        replay={"trace": t, "line": line}))
    multi = sum(1 for t in traces if len({t["assign"][r] for e in t["ev"] for r in e["seq"]}) > 1)
    cov = dict(states=states, transitions=transitions, traces_validated_against_impl=len(traces),
               graph_edges=edges, graph_edges_replayed=replayed, traces_spanning_several_layers=multi,
               events_validated=sum(len(t["ev"]) for t in traces), exhaustive=True, configs=cfgs, **tstats,
               samples=[traces[0], traces[-1]])
    return core.Outcome(level="model_checking", coverage=cov, violations=viols, assumptions=[
        "layers are in-memory fakes with a distinct initial content per (layer, register)",
        "batches with a register repeated inside one write batch are not generated (undefined order of effect)"])
