"""C34: CSV export = sample-and-hold of the plot log.  CsvHold.tla enumerates every small plot log (TLC initial states) and
checks the table laws; every one of them is exported by the real generate_csv_string and CsvHoldTrace.tla compares the cells."""
from __future__ import annotations

import csv
import datetime
import io

from .. import core, dotgraph, tlaval, tlc


def _export(log: dict):
    from openpectus.aggregator.csv_generator import generate_csv_string
    from openpectus.aggregator.routers import dto
    entries = {}
    for g, times in log.items():
        vals = [dto.PlotLogEntryValue(value=f"{g}#{i + 1}", tick_time=float(t)) for i, t in enumerate(times)]
        entries[g] = dto.PlotLogEntry(name=g, values=vals, value_unit=None, value_type=dto.ProcessValueType.STRING)
    plot_log = dto.PlotLog(entries=entries)
    now = datetime.datetime(2024, 1, 1)
    rr = dto.RecentRun(engine_id="e", run_id="r", started_date=now, completed_date=now, uod_name="u", uod_filename="f",
                       uod_author_name="a", uod_author_email="m", engine_computer_name="c", engine_version="1",
                       engine_hardware_str="h", aggregator_computer_name="ac", aggregator_version="1", contributors=[])
    try:
        text = generate_csv_string(plot_log, rr).getvalue()
    except Exception as ex:
        return {"log": log, "tags": list(log), "rows": [], "exc": type(ex).__name__}
    lines = list(csv.reader(io.StringIO(text)))
    # metadata block ends with an empty row; next row is the header, the rest are data rows
    k = next(i for i, row in enumerate(lines) if row == [])
    header = lines[k + 1] if len(lines) > k + 1 else []
    return {"log": log, "tags": header, "rows": lines[k + 2:], "exc": "none"}


def run(ctx: core.Ctx) -> core.Outcome:
    cfg = "CsvHold.cfg" if ctx.quick else "CsvHoldDeep.cfg"
    scratch = tlc.new_scratch("csv")
    try:
        res = tlc.dump_graph("CsvHold", cfg, scratch / "g.dot", timeout=900)
        if not res.ok:
            raise core.MachineryFailure(f"design spec CsvHold violates {res.violated}")
        g = dotgraph.Graph.load(scratch / "g.dot")
        logs = [tlaval.to_py(g.var(n, "log")) for n in g.labels]
    finally:
        tlc.rm_scratch(scratch)
    if not ctx.quick:
        res2 = tlc.dump_graph("CsvHold", "CsvHold.cfg", (scratch2 := tlc.new_scratch("csv")) / "g.dot", timeout=900)
        g2 = dotgraph.Graph.load(scratch2 / "g.dot")
        logs += [tlaval.to_py(g2.var(n, "log")) for n in g2.labels]
        tlc.rm_scratch(scratch2)
    traces = []
    for i, lg in enumerate(logs):
        traces.append({"id": f"log{i}", "ev": [_export({k: list(v) for k, v in lg.items()})]})
    verdicts, tstats = core.validate_traces("CsvHoldTrace", traces)
    by_id = {t["id"]: t for t in traces}
    viols = []
    for tid, vs in verdicts.items():
        for clause, _line in vs:
            e = by_id[tid]["ev"][0]
            viols.append(core.Violation(key=clause + "@generate_csv_string", case=tid, detail=f"log={e['log']} rows={e['rows']}",
                                        replay={"event": e}))
    nontriv = sum(1 for t in traces if len({x for v in t["ev"][0]["log"].values() for x in v}) >= 2
                  and sum(1 for v in t["ev"][0]["log"].values() if v) >= 2)
    cov = dict(states=res.distinct, transitions=res.generated, traces_validated_against_impl=len(traces),
               plot_logs_with_interleaving=nontriv, exhaustive=True, config=cfg, **tstats,
               samples=[traces[len(traces) // 3]["ev"][0], traces[-1]["ev"][0]])
    return core.Outcome(level="model_checking", coverage=cov, violations=viols, assumptions=[
        "the plot log carries no explicit time column: row i is matched with the i-th distinct sample time",
        "values are strings naming their tag and position; empty cell = no value"])
