"""Engine-side properties decided on the shared engine corpus (harness/engcorpus.py): the runs are projected for the trace spec
that owns the property's clauses, validated once per spec (cached), and the verdict is filtered by the property's clause prefix."""
from __future__ import annotations

from .. import core, engcorpus, interp

# property -> trace spec whose clauses decide it
SPEC_OF = {
    "C10": "CommandsTrace", "C11": "CommandsTrace", "C12": "CommandsTrace",
    "C01": "InterpTrace", "C02": "InterpTrace", "C03": "InterpTrace", "C04": "InterpTrace", "C05": "InterpTrace",
    "C14": "InterpTrace", "C15": "InterpTrace", "C41": "InterpTrace", "C16": "TagReportTrace", "C36": "TagReportTrace",
    "C06": "RunStateTrace", "C07": "RunStateTrace", "C08": "RunStateTrace", "C09": "RunStateTrace", "C13": "RunStateTrace",
}
# property -> design spec (module, quick cfg, thorough cfg) model-checked by TLC in the check itself
DESIGN_OF = {
    "C06": ("RunState", "RunState.cfg", "RunStateDeep.cfg"), "C07": ("RunState", "RunState.cfg", "RunStateDeep.cfg"),
    "C08": ("RunState", "RunState.cfg", "RunStateDeep.cfg"), "C09": ("RunState", "RunState.cfg", "RunStateDeep.cfg"),
    "C13": ("RunState", "RunState.cfg", "RunStateDeep.cfg"),
    "C10": ("Commands", "Commands.cfg", "Commands.cfg"), "C11": ("Commands", "Commands.cfg", "Commands.cfg"),
    "C12": ("Commands", "Commands.cfg", "Commands.cfg"),
    "C16": ("TagReport", "TagReport.cfg", "TagReportDeep.cfg"), "C36": ("TagReport", "TagReport.cfg", "TagReportDeep.cfg"),
}
PROJECT = {"RunStateTrace": engcorpus.project_runstate, "CommandsTrace": engcorpus.project_commands,
           "InterpTrace": interp.project_interp, "TagReportTrace": engcorpus.project_tags}


def _validate(ctx, spec, corp):
    runs = corp["runs"]
    if spec == "InterpTrace" and ctx.quick:        # the schedules replayed from the RunState graph add little here
        runs = [r for r in runs if r["family"] != "rs"]
    traces = [PROJECT[spec](r) for r in runs]
    traces = [t for t in traces if t["ev"]]
    verdicts, tstats = core.validate_traces(spec, traces)
    kinds = {}
    for t in traces:          # what the clauses were exercised on (vacuity guard, reported in the evidence)
        for e in t["ev"]:
            k = e["e"]
            if k == "fl":
                k = f"fl.{e['f']}={'on' if e['on'] else 'off'}" + (".thr" if e.get("thr") and e["f"] == "started" else "")
            elif k == "rec":
                k = "rec." + e["state"]
            elif k in ("edit", "inject", "cf", "req"):
                k = f"{k}.{e.get('k', '')}{e.get('op', '')}.{e.get('res', '')}"
            elif k == "thr":
                k = f"thr.awaiting={e['awaiting']}"
            elif k == "ta":
                k = f"ta.cond={e['condNow']}"
            kinds[k] = kinds.get(k, 0) + 1
    return {"verdicts": verdicts, "tstats": tstats, "ntraces": len(traces), "nevents": sum(len(t["ev"]) for t in traces),
            "event_kinds": dict(sorted(kinds.items()))}


def _design(ctx):
    from .. import tlc
    if ctx.prop not in DESIGN_OF:
        return {"module": "", "states": 0, "transitions": 0, "depth": 0}
    mod, q, t = DESIGN_OF[ctx.prop]
    res = tlc.run_tlc(mod, q if ctx.quick else t, workers=8, timeout=1800)
    if not res.ok:
        raise core.MachineryFailure(f"design spec {mod} violates {res.violated}")
    return {"module": mod, "states": res.distinct, "transitions": res.generated, "depth": res.depth}


LOCKSTEP = {"C02", "C04", "C05", "C41"}       # properties that also get the lock-step clauses of Interp.tla
CMDLOCK = {"C06", "C08", "C09", "C10", "C11", "C13"}        # properties that also get the lock-step clauses of CmdMgr.tla


def _cmdlock(ctx):
    from . import cmdlock
    viols, cov, stats = cmdlock.run_lockstep(ctx)
    return {"viols": [(v.key, v.case, v.detail, v.replay) for v in viols], "cov": cov}


def _lockstep(ctx):
    from . import interplock
    viols, cov, stats = interplock.run_lockstep(ctx)
    return {"viols": [(v.key, v.case, v.detail, v.replay) for v in viols], "cov": cov}


def run(ctx: core.Ctx) -> core.Outcome:
    design_run = _design(ctx)
    corp = engcorpus.corpus(ctx)
    spec = SPEC_OF[ctx.prop]
    val, hit = core.cached("engverdict-" + spec, ctx, lambda: _validate(ctx, spec, corp))
    by_id = {r["id"]: r for r in corp["runs"]}
    viols = []
    for tid, vs in val["verdicts"].items():
        for clause, line in vs:
            if core.prop_of(clause) != ctx.prop:
                continue
            r = by_id[tid]
            tr = PROJECT[spec](r)
            ev = tr["ev"][line - 1]
            small = {k: v for k, v in ev.items() if k not in ("ctl",)}
            viols.append(core.Violation(key=clause, case=tid, detail=f"method={r['method']} event#{line}={small}",
                                        replay={"method": r["method"], "steps": r["steps"], "line": line, "event": ev}))
    lock_cov = {}
    if ctx.prop in LOCKSTEP:
        lk, _ = core.cached("interplock", ctx, lambda: _lockstep(ctx))
        lock_cov = lk["cov"]
        design_run = {"module": "Interp", "states": lock_cov["lockstep_states"], "transitions": lock_cov["lockstep_transitions"], "depth": 0}
        for key, case, detail, replay in lk["viols"]:
            if core.prop_of(key) == ctx.prop:
                viols.append(core.Violation(key=key, case=case, detail=detail, replay=replay))
    if ctx.prop in CMDLOCK:
        ck, _ = core.cached("cmdlock", ctx, lambda: _cmdlock(ctx))
        lock_cov = dict(lock_cov, **ck["cov"])
        for key, case, detail, replay in ck["viols"]:
            if core.prop_of(key) == ctx.prop:
                viols.append(core.Violation(key=key, case=case, detail=detail, replay=replay))
    if design_run["states"] == 0:
        # no separate design spec for this property: the TLC run is the monitor's, over the recorded executions
        design_run = {"module": spec + " (monitor; TLC states over the recorded runs)", "states": val["tstats"]["trace_states"],
                      "transitions": val["tstats"]["trace_transitions"], "depth": 0}
    fams = {}
    for r in corp["runs"]:
        fams[r["family"]] = fams.get(r["family"], 0) + 1
    design = corp["design"].get("RunState", {})
    sample = corp["runs"][len(corp["runs"]) // 2]
    cov = dict(states=design_run["states"], transitions=design_run["transitions"], design_spec=design_run["module"],
               design_depth=design_run["depth"], **lock_cov, replay_graph_states=design.get("states", 0),
               traces_validated_against_impl=val["ntraces"], events_validated=val["nevents"], runs_by_family=fams,
               graph_edges=design.get("edges", 0), event_kinds=val.get("event_kinds", {}), corpus_from_cache=corp["from_cache"], verdict_from_cache=hit, **val["tstats"],
               samples=[{"method": sample["method"], "steps": sample["steps"][:12]}])
    return core.Outcome(level="model_checking", coverage=cov, violations=viols, assumptions=[
        "virtual time: engine.tick(t, dt) is called directly with a NullTimer; requests are applied between ticks",
        "instrumented UOD and recording hardware (harness/engdriver.py); device memory starts with a non-safe value",
        "TLC-generated RunState behaviours are input schedules; the verdict comes from the monitor's named clauses",
        "lock-step models (Interp.tla, CmdMgr.tla) are stepped with the recorded inputs and compared variable by variable after every tick"])
