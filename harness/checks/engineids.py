"""C38: engine ids.  EngineIds.tla (injective ids, no takeover of a connected id) + the real create_engine_id over every pair
of names from an alphabet with the separator and URL-special characters, and register/connect histories on the real
aggregator; EngineIdsTrace.tla checks injectivity and the takeover rule."""
from __future__ import annotations

import itertools
import random

from .. import core, tlc
from ..aggdriver import AggWorld

ALPHABET = ["a", "_", "/", "%", " ", "2", "5", "F"]


def run(ctx: core.Ctx) -> core.Outcome:
    res = tlc.run_tlc("EngineIds", "EngineIds.cfg", workers=4, timeout=600)
    if not res.ok:
        raise core.MachineryFailure(f"design spec EngineIds violates {res.violated}")
    world = AggWorld()
    rnd = random.Random(ctx.seed)
    try:
        names = [""] + ALPHABET[:5] + ["".join(p) for p in itertools.product(ALPHABET[:5], repeat=2)] \
            + ["%20", "%2F", "%5F", "%25", "a%5Fb", "a b", "a/b", "a_b", "b_c", "é", "%C3%A9"]
        if not ctx.quick:
            names += ["".join(p) for p in itertools.product(ALPHABET, repeat=3) if rnd.random() < 0.3]
        names = sorted(set(names))
        pairs = [(c, u) for c in names for u in names if c and u]
        if ctx.quick and len(pairs) > 1500:
            keep = [(c, u) for c, u in pairs if len(c) + len(u) <= 3]
            rest = [p for p in pairs if p not in set(keep)]
            rnd.shuffle(rest)
            pairs = keep + rest[:1500 - len(keep)] if len(keep) < 1500 else keep
        ev = []
        for c, u in pairs:
            ev.append({"a": "id", "c": c, "u": u, "id": world.agg.create_engine_id(world.register_msg(c, u))})
        traces = [{"id": "ids", "ev": ev}]
        # takeover histories: register / connect / register again (same and colliding engines) / disconnect / register
        hist = []
        ever_registered = set()
        cases = [("pc", "uod"), ("a_b", "c"), ("a", "b_c"), ("a b", "c"), ("a%20b", "c"), ("x/y", "z"), ("x", "y_z"), ("x_y", "z")]
        for _ in range(200 if ctx.quick else 1500):
            p = rnd.choice(cases)
            eid = world.agg.create_engine_id(world.register_msg(*p))
            k = rnd.random()
            if k < 0.5:
                r = world.register(*p)
                if r.success:
                    ever_registered.add(eid)
                hist.append({"a": "register", "c": p[0], "u": p[1], "id": eid, "ok": bool(r.success)})
            elif k < 0.8:
                # an engine keeps its id across reconnects: after a dropped websocket (the aggregator forgets the engine data) it
                # may open a new one without registering again; it is then connected but not registered
                if eid in ever_registered and not world.dispatcher.has_connected_engine_id(eid):
                    world.connect_ws(eid)
                    if world.dispatcher.has_connected_engine_id(eid):
                        hist.append({"a": "connect", "c": p[0], "u": p[1], "id": eid})
            else:
                if world.dispatcher.has_connected_engine_id(eid):
                    world.disconnect_ws(eid)
                    hist.append({"a": "disconnect", "c": p[0], "u": p[1], "id": eid})
        # ids of connect events name the engine that registered that id last; the trace spec only uses the id
        traces.append({"id": "takeover", "ev": hist})
    finally:
        world.close()
    verdicts, tstats = core.validate_traces("EngineIdsTrace", traces)
    by_id = {t["id"]: t for t in traces}
    viols = []
    for tid, vs in verdicts.items():
        for clause, line in vs:
            e = by_id[tid]["ev"][line - 1]
            others = [x for x in by_id[tid]["ev"][:line - 1] if x["id"] == e["id"] and (x["c"], x["u"]) != (e["c"], e["u"])][:2]
            viols.append(core.Violation(key=clause, case=f"{tid}#{line}", detail=f"{e} clashes with / follows {others}",
                                        replay={"event": e, "others": others}))
    cov = dict(evaluations=len(pairs) + len(hist), distinct_nontrivial=len({e["id"] for e in ev}),
               rule="every <<computer, uod>> pair over names of length <= 2 from {a,_,/,%,space} plus percent-escape look-alikes "
                    "(quick: all pairs of total length <= 3 + a sample); distinct = distinct ids handed out; plus random "
                    "register/connect/disconnect histories over colliding and non-colliding engines",
               design_states=res.distinct, **tstats, samples=[ev[7], ev[-1]] + hist[:3])
    return core.Outcome(level="exploration", coverage=cov, violations=viols, assumptions=[
        "injectivity is checked among the generated pairs only"])
