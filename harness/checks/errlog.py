"""C35: error-log aggregation.  ErrLog.tla enumerates every admissible delivery (entries x batch split) and checks the laws
of the reference Merge; each case is run through the real AggregatedErrorLog.aggregate_with and compared by ErrLogTrace.tla."""
from __future__ import annotations

from .. import core, dotgraph, tlaval, tlc


EPOCH = 1_790_000_000.0      # log records carry epoch seconds; one model time unit = one engine tick (0.1 s)


def _case(inp, split, epoch=False):
    from openpectus.aggregator.models import AggregatedErrorLog
    import openpectus.protocol.models as Mdl
    b1, b2 = inp[:split], inp[split:]

    def real(t):
        return EPOCH + 0.1 * t if epoch else float(t)

    def model(x):
        return int(round((x - EPOCH) * 10)) if epoch else int(x)

    def mk(batch):
        return Mdl.ErrorLog(entries=[Mdl.ErrorLogEntry(message=e["msg"], created_time=real(e["t"]), severity=e["sev"])
                                     for e in batch])

    def proj(agg):
        return [{"msg": x.message, "sev": x.severity, "t": model(x.created_time), "n": x.occurrences} for x in agg.entries]
    agg = AggregatedErrorLog.empty()
    ev = {"b1": b1, "b2": b2, "after1": [], "after2": [], "exc": "none"}
    try:
        agg.aggregate_with(mk(b1))
        ev["after1"] = proj(agg)
        agg.aggregate_with(mk(b2))
        ev["after2"] = proj(agg)
    except Exception as ex:
        ev["exc"] = type(ex).__name__
    return ev


def run(ctx: core.Ctx) -> core.Outcome:
    cfg = "ErrLog.cfg" if ctx.quick else "ErrLogDeep.cfg"
    scratch = tlc.new_scratch("err")
    try:
        res = tlc.dump_graph("ErrLog", cfg, scratch / "g.dot", timeout=1200)
        if not res.ok:
            raise core.MachineryFailure(f"design spec ErrLog violates {res.violated}")
        g = dotgraph.Graph.load(scratch / "g.dot")
        cases = [(tlaval.to_py(g.var(n, "input")), g.var(n, "split")) for n in g.labels]
    finally:
        tlc.rm_scratch(scratch)
    # every case with small times and again with times as the engine produces them (epoch seconds, 0.1 s apart)
    traces = [{"id": f"c{i}", "ev": [_case(inp, sp)]} for i, (inp, sp) in enumerate(cases)] + \
        [{"id": f"e{i}", "ev": [_case(inp, sp, epoch=True)]} for i, (inp, sp) in enumerate(cases)]
    verdicts, tstats = core.validate_traces("ErrLogTrace", traces)
    by_id = {t["id"]: t for t in traces}
    viols = []
    for tid, vs in verdicts.items():
        for clause, _ in vs:
            e = by_id[tid]["ev"][0]
            viols.append(core.Violation(key=clause + "@aggregate_with", case=tid, detail=str(e), replay={"event": e}))
    merged = sum(1 for t in traces if any(x["n"] > 1 for x in t["ev"][0]["after2"]))
    cov = dict(states=res.distinct, transitions=res.generated, traces_validated_against_impl=len(traces),
               cases_with_merges=merged, exhaustive=True, config=cfg, **tstats,
               samples=[traces[len(traces) // 2]["ev"][0], traces[-1]["ev"][0]])
    return core.Outcome(level="model_checking", coverage=cov, violations=viols, assumptions=[
        "inputs never contain an entry older than the aggregated entry it would merge with (the statement gives no meaning "
        "to that case; the code drops such an entry as a late redelivery)"])
