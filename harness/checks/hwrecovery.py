"""C23 / C24: hardware error recovery.  HwRecovery.tla exhaustively + every edge of its state graph replayed on the
real ErrorRecoveryDecorator, the recorded executions validated by HwRecoveryTrace.tla."""
from __future__ import annotations

import random

from .. import core, dotgraph, tlaval, tlc


def _mk_driver():
    import openpectus.engine.hardware_recovery as hr
    from openpectus.engine.hardware import HardwareLayerBase, HardwareLayerException, Register, RegisterDirection
    from openpectus.lang.exec.tags import SystemTagName, create_system_tags

    class FakeTime:
        def __init__(self):
            self.t = 1000.0

        def time(self):
            return self.t

    class Device(HardwareLayerBase):
        def __init__(self):
            super().__init__()
            self.registers["in"] = Register("in", RegisterDirection.Read)
            self.registers["o1"] = Register("o1", RegisterDirection.Write)
            self.registers["o2"] = Register("o2", RegisterDirection.Write)
            self.mem = {"o1": "x", "o2": "x"}
            self.inval = "a"
            self.fail = False
            self.connect_ok = True
            self.consulted = 0
            self.connect_calls = 0

        def read(self, r):
            self.consulted += 1
            if self.fail:
                raise HardwareLayerException("scripted read failure")
            return self.inval

        def read_batch(self, registers):
            self.consulted += 1
            if self.fail:
                raise HardwareLayerException("scripted read failure")
            return [self.inval for _ in registers]

        def write(self, value, r):
            self.consulted += 1
            if self.fail:
                raise HardwareLayerException("scripted write failure")
            self.mem[r.name] = value

        def write_batch(self, values, registers):
            if len(list(registers)) == 0:
                return          # nothing goes over the wire: an empty batch cannot fail
            self.consulted += 1
            if self.fail:
                raise HardwareLayerException("scripted write failure")
            for v, r in zip(values, registers):
                self.mem[r.name] = v

        def connect(self):
            self.connect_calls += 1
            if not self.connect_ok:
                raise HardwareLayerException("scripted connect failure")
            super().connect()

    class Driver:
        def __init__(self, api="batch"):
            self.clock = FakeTime()
            hr.time = self.clock            # the module uses time.time(); give it virtual time
            self.dev = Device()
            tags = create_system_tags()
            self.tag = tags[SystemTagName.CONNECTION_STATUS]
            self.dec = hr.ErrorRecoveryDecorator(self.dev, hr.ErrorRecoveryConfig(), self.tag)
            self.api = api
            self.exc = HardwareLayerException

        def post(self, raised, ret):
            return {"st": self.dec.get_recovery_state().name, "status": str(self.tag.get_value()),
                    "raised": bool(raised), "ret": "none" if ret is None else ret, "dev": dict(self.dev.mem)}

        def step(self, name, args):
            d, dec = self.dev, self.dec
            ev = {"a": name.lower()}
            raised, ret = False, None
            d.consulted = 0
            if name == "Connect":
                d.connect_ok = args[0]
                try:
                    dec.connect()
                except self.exc:
                    raised = True
                ev["ok"] = args[0]
            elif name == "Read":
                ok, v = args
                d.fail, d.inval = (not ok), v
                try:
                    if self.api == "batch":
                        ret = dec.read_batch([d.registers["in"]])[0]
                    else:
                        ret = dec.read(d.registers["in"])
                except self.exc:
                    raised = True
                d.fail = False
                ev["ok"], ev["v"] = ok, v
            elif name in ("Write", "WriteSkip"):
                vals, ok = (args[0], True) if name == "WriteSkip" else args
                ev["a"] = "write"
                d.fail = not ok
                names = sorted(vals)
                try:
                    if len(names) == 1 and self.api != "batch1":
                        dec.write(vals[names[0]], d.registers[names[0]])
                    else:
                        dec.write_batch([vals[n] for n in names], [d.registers[n] for n in names])
                except self.exc:
                    raised = True
                d.fail = False
                # a write that sent nothing cannot have failed: the scripted outcome is moot (spec action WriteSkip)
                ev["touched"] = d.consulted > 0
                ev["ok"] = bool(ok or d.consulted == 0)
                ev["vals"] = dict(vals)
            elif name == "Tick":
                d.connect_ok = args[0]
                before = d.connect_calls
                for _ in range(40000):
                    dec.tick()
                    if d.connect_calls != before or dec.get_recovery_state().name not in ("Reconnect", "Error"):
                        break
                ev["ok"] = args[0]
                ev["attempted"] = d.connect_calls != before
            elif name == "Advance":
                self.clock.t += args[0]
                ev["d"] = args[0]
            else:
                raise core.MachineryFailure("unknown action " + name)
            ev["post"] = self.post(raised, ret)
            return ev

    return Driver, hr


def _run_paths(paths, api):
    Driver, hr = _mk_driver()
    import time as real_time
    traces = []
    try:
        for i, acts in enumerate(paths):
            drv = Driver(api)
            evs = [drv.step(name, args) for name, args in acts]
            traces.append({"id": f"{api}-{i}", "ev": evs})
    finally:
        hr.time = real_time
    return traces


def _random_paths(n, depth, seed):
    rnd = random.Random(seed)
    out = []
    for _ in range(n):
        acts = [("Connect", [rnd.random() < 0.9])]
        for _ in range(depth):
            k = rnd.random()
            if k < 0.25:
                acts.append(("Read", [rnd.random() < 0.5, rnd.choice("ab")]))
            elif k < 0.65:
                regs = rnd.choice([["o1"], ["o2"], ["o1", "o2"], ["o1", "o2"]])
                acts.append(("Write", [{r: rnd.choice("ab") for r in regs}, rnd.random() < 0.5]))
            elif k < 0.8:
                acts.append(("Tick", [rnd.random() < 0.5]))
            else:
                acts.append(("Advance", [rnd.choice([1, 11, 18001])]))
        out.append(acts)
    return out


def run(ctx: core.Ctx) -> core.Outcome:
    cfg = "HwRecovery.cfg" if ctx.quick else "HwRecoveryDeep.cfg"
    scratch = tlc.new_scratch("hw")
    try:
        res = tlc.dump_graph("HwRecovery", cfg, scratch / "g.dot", timeout=900)
        if not res.ok:
            raise core.MachineryFailure(f"design spec HwRecovery violates {res.violated}")
        g = dotgraph.Graph.load(scratch / "g.dot")
    finally:
        tlc.rm_scratch(scratch)
    paths, total_edges = g.edge_cover_paths(max_len=10 if ctx.quick else 14, seed=ctx.seed)
    acts = []
    for _labels, nodes in paths:
        seq = []
        for n in nodes[1:]:
            name, _pre, args = g.var(n, "last")      # the history variable names the call and its arguments
            seq.append((str(name), [tlaval.to_py(a) for a in args]))
        acts.append(seq)
    traces = _run_paths(acts, "batch")
    # the same behaviours through the single-register API, and long random behaviours (deeper than the exhaustive bound)
    nrand = 300 if ctx.quick else 5000
    traces += _run_paths(acts[:: (4 if ctx.quick else 1)], "single")
    rnd_traces = _run_paths(_random_paths(nrand, 30 if ctx.quick else 60, ctx.seed), "batch")
    for t in rnd_traces:
        t["id"] = "rnd-" + t["id"]
    traces += rnd_traces
    verdicts, tstats = core.validate_traces("HwRecoveryTrace", traces)
    by_id = {t["id"]: t for t in traces}
    viols = []
    for tid, vs in verdicts.items():
        for clause, line in vs:
            t = by_id[tid]
            viols.append(core.Violation(key=clause, case=tid,
                                        detail=f"event {line} of trace {tid}: {t['ev'][line - 1]}",
                                        replay={"trace": t, "line": line}))
    nontrivial = sum(1 for t in traces if any(e["a"] in ("read", "write") and not e.get("ok", True) for e in t["ev"]))
    cov = dict(states=res.distinct, transitions=res.generated, traces_validated_against_impl=len(traces),
               graph_edges=total_edges, graph_edges_replayed=sum(len(p[0]) for p in paths),
               behaviours_from_graph=len(paths), random_behaviours=nrand,
               events_validated=sum(len(t["ev"]) for t in traces), traces_with_faults=nontrivial,
               exhaustive=True, design_depth=res.depth, **tstats,
               samples=[traces[0], traces[len(traces) // 2]])
    return core.Outcome(level="model_checking", coverage=cov, violations=viols, assumptions=[
        "the fake device fails exactly the calls the schedule marks as failing; a failing call leaves the device memory unchanged",
        "time is virtual (hardware_recovery.time is replaced); time passes only between calls",
        "reconnect back-off is not modelled: Tick(ok) ticks until the next reconnect attempt",
        "a write accepted without raising counts as 'commanded'; a write that raised does not"])
