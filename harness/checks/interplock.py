"""Lock-step conformance of the real interpreter with the design spec Interp.tla (adds exact clauses to C02, C04, C05).
TLC model-checks Interp.tla (all input sequences for the listed methods); the same methods are run on the real engine for every
input sequence up to a length and for long random ones; InterpLockTrace.tla steps the model with the recorded inputs and
compares every variable after every tick."""
from __future__ import annotations

import itertools
import random
import re

from .. import core, tlc

COND = "In > 2 L/h"


def programs():
    """the methods of Interp.tla, parsed from the module itself (single source of truth)"""
    src = (tlc.SPECS / "Interp.tla").read_text()
    block = src[src.index("Programs =="):src.index("VARIABLES prog")]
    out = []
    for chunk in re.split(r"\\\*\s*\d+:", block)[1:]:
        nodes = [(k, int(p), [int(x) for x in kids.replace(" ", "").split(",") if x], name)
                 for k, p, kids, name in re.findall(r'PN?\("(\w+)",\s*(\d+),\s*<<([\d, ]*)>>(?:,\s*"(\w*)")?\)', chunk)]
        out.append(nodes)
    return out


def render(nodes):
    """P-code lines and the map node number -> line id; nodes are numbered in pre-order like the lines"""
    lines, ids = [], {1: "root"}

    def emit(n, depth):
        kind, _, kids, name = nodes[n - 1]
        if kind != "prog":
            text = {"mark": f"Mark: m{n}", "block": f"Block: b{n}", "end": "End block", "watch": f"Watch: {COND}", "alarm": f"Alarm: {COND}",
                    "macro": f"Macro: {name}", "call": f"Call macro: {name}"}[kind]
            lines.append("    " * depth + text)
            ids[n] = f"L{len(lines)}"
        for k in kids:
            emit(k, depth + (0 if kind == "prog" else 1))
    emit(1, 0)
    return lines + [""], ids


def _observe(run, ids, nodes):
    back = {v: k for k, v in ids.items()}
    fl = run.node_flags()

    def nums(key):
        return sorted(back[i] for i in fl[key] if i in back)
    snap = run.snapshot()
    blk = snap["block"]
    tag = 0
    if blk not in ("none", ""):
        tag = int(blk[1:])
    mark = snap["mark"]
    marks = [] if mark in ("none", "") else [int(x.strip()[1:]) for x in mark.split(";")]
    runs, mstart, mdone = [0] * len(nodes), [0] * len(nodes), [0] * len(nodes)
    interp = run.engine.interpreter
    for n in interp._program.get_all_nodes():
        if str(n.id) in back and hasattr(n, "run_count"):
            runs[back[str(n.id)] - 1] = int(n.run_count)
        if str(n.id) in back and hasattr(n, "run_started_count"):
            mstart[back[str(n.id)] - 1] = int(n.run_started_count)
            mdone[back[str(n.id)] - 1] = int(n.run_completed_count)
    return {"started": nums("started"), "completed": nums("completed"), "locked": nums("locked"), "ended": nums("ended"),
            "registered": nums("registered"), "activated": nums("activated"), "tag": tag, "marks": marks, "runs": runs,
            "failed": nums("failed"), "mstart": mstart, "mdone": mdone}


def _run(pi, nodes, inputs, tid):
    from ..engdriver import EngineRun
    lines, ids = render(nodes)
    r = EngineRun(lines)
    ev = []
    try:
        r.control("Start")
        r.tick(0.1, {"In": 0.0})                      # the Start command executes; the interpreter ticks from the next tick on
        for hi in inputs:
            r.tick(0.1, {"In": 3.0 if hi else 0.0})
            e = _observe(r, ids, nodes)
            e["hi"] = bool(hi)
            ev.append(e)
    finally:
        r.close()
    return {"id": tid, "prog": pi + 1, "ev": ev, "lines": lines, "inputs": [bool(x) for x in inputs]}


def run_lockstep(ctx: core.Ctx):
    core.setup_repo_imports()
    res = tlc.run_tlc("Interp", "Interp.cfg" if ctx.quick else "InterpDeep.cfg", workers=12, timeout=3000)
    if not res.ok:
        raise core.MachineryFailure(f"design spec Interp violates {res.violated}")
    progs = programs()
    rnd = random.Random(ctx.seed)
    traces = []
    k = 7 if ctx.quick else 10
    for pi, nodes in enumerate(progs):
        for n, inputs in enumerate(itertools.product([False, True], repeat=k)):
            tail = [rnd.random() < 0.6 for _ in range(14 if ctx.quick else 20)]
            traces.append(_run(pi, nodes, list(inputs) + tail, f"p{pi + 1}-x{n}"))
    verdicts, stats = core.validate_traces("InterpLockTrace", [{"id": t["id"], "prog": t["prog"], "ev": t["ev"]} for t in traces],
                                           max_events=40000)
    by_id = {t["id"]: t for t in traces}
    viols = []
    for tid, vs in verdicts.items():
        for clause, line in vs:
            t = by_id[tid]
            viols.append(core.Violation(key=clause + f"@program-{t['prog']}", case=tid,
                                        detail=f"method={t['lines']} inputs={t['inputs'][:line]} tick#{line} observed={t['ev'][line - 1]}",
                                        replay={"method": t["lines"], "inputs": t["inputs"], "line": line, "observed": t["ev"][line - 1]}))
    cov = dict(lockstep_states=res.distinct, lockstep_transitions=res.generated, lockstep_programs=len(progs), lockstep_runs=len(traces),
               lockstep_ticks=sum(len(t["ev"]) for t in traces))
    return viols, cov, stats
