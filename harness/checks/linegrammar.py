"""C18: line decomposition.  LineGrammar.tla enumerates the product of the part pools with the composed line text (TLC initial
states); every line is parsed by the real PcodeParser and LineGrammarTrace.tla compares the recovered parts with the originals."""
from __future__ import annotations

import random

from .. import core, dotgraph, tlaval, tlc


def _parse(kind, parts, line):
    from openpectus.lang.model.parser import PcodeParser
    import openpectus.lang.model.ast as ast
    ev = {"kind": kind, "parts": parts, "line": line, "exc": "none",
          "got": {"indent": -1, "threshold": "", "name": "", "arguments": "", "comment": "", "hasComment": False,
                  "tag": "", "op": "", "value": "", "unit": ""}}
    try:
        node = PcodeParser(uod_command_names=["Inlet valve 2", "x"])._parse_line(line, 0)
        g = ev["got"]
        g["indent"] = int(node.position.character)
        g["threshold"] = str(node.threshold_part or "")
        g["name"] = str(node.instruction_name or "")
        g["arguments"] = str(node.arguments or "")
        g["comment"] = str(node.comment_part or "")
        g["hasComment"] = bool(node.has_comment)
        if isinstance(node, ast.NodeWithTagOperatorValue) and node.tag_operator_value is not None:
            c = node.tag_operator_value
            g["tag"], g["op"] = str(c.tag_name or ""), str(c.op or "")
            g["value"], g["unit"] = str(c.tag_value if c.tag_value is not None else ""), str(c.tag_unit or "")
    except Exception as ex:
        ev["exc"] = type(ex).__name__
    return ev


def run(ctx: core.Ctx) -> core.Outcome:
    scratch = tlc.new_scratch("lg")
    try:
        res = tlc.dump_graph("LineGrammar", "LineGrammar.cfg", scratch / "g.dot", timeout=1200, workers=1)
        g = dotgraph.Graph.load(scratch / "g.dot")
        nodes = list(g.labels)
        if ctx.quick:
            rnd = random.Random(ctx.seed)
            rnd.shuffle(nodes)
            nodes = nodes[:25000]
        evs = []
        for n in nodes:
            st = g.state(n)
            evs.append(_parse(str(st["kind"]), tlaval.to_py(st["parts"]), st["line"]))
    finally:
        tlc.rm_scratch(scratch)
    traces = [{"id": f"chunk{i}", "ev": evs[i:i + 2000]} for i in range(0, len(evs), 2000)]
    verdicts, tstats = core.validate_traces("LineGrammarTrace", traces, max_events=150000)
    by_id = {t["id"]: t for t in traces}
    viols = []
    for tid, vs in verdicts.items():
        for clause, line in vs:
            e = by_id[tid]["ev"][line - 1]
            viols.append(core.Violation(key=clause + "@" + e["kind"], case=f"{tid}#{line}",
                                        detail=f"line={e['line']!r} parts={e['parts']} got={e['got']} exc={e['exc']}",
                                        replay={"event": e}))
    cov = dict(evaluations=len(evs), distinct_nontrivial=len({e["line"] for e in evs}),
               rule="product of the part pools of LineGrammar.tla: indentation x threshold x name x argument x comment separator x "
                    "comment, and for Watch/Alarm/Simulate: tag (with spaces) x 7 operators x spacing x numeric/string value x "
                    "unit x tail (trailing space / comment); quick: a seeded sample of 25000 of the 61776 lines",
               grammar_states=res.distinct, **tstats, samples=[evs[0]["line"], evs[len(evs) // 2]["line"], evs[-1]["line"]])
    return core.Outcome(level="exploration", coverage=cov, violations=viols, assumptions=[
        "thin oracle: the parser must return exactly the parts the line was composed of",
        "string condition values carry no unit; spacing around the operator is symmetric"])
