"""C31: optimistic method saves.  MethodSave.tla: TLC shows the lost update in the unserialized protocol and the invariants in
the serialized one; the interleavings of the unserialized graph (which save starts when, which engine request is answered next
and how) are replayed on the real FromFrontend.save_method coroutines with a gated fake engine; MethodSaveTrace.tla judges."""
from __future__ import annotations

import asyncio

from .. import core, dotgraph, tlaval, tlc
from ..aggdriver import AggWorld


def _replay(world: AggWorld, acts, tid, k):
    import openpectus.aggregator.models as Mdl
    import openpectus.protocol.aggregator_messages as AM
    import openpectus.protocol.messages as M
    comp = f"c{k}"
    world.register(comp, "u")
    eid = world.agg.create_engine_id(world.register_msg(comp, "u"))
    world.connect_ws(eid)
    ed = world.agg.get_registered_engine_data(eid)
    ed.method = Mdl.Method(lines=[Mdl.MethodLine(id="l0", content="")], version=1, last_author="x")
    ff = world.agg.from_frontend
    pending, tasks, reported = {}, {}, set()
    loop = world.loop

    async def rpc_call(engine_id, message):
        i = int(message.method.lines[0].content.split("-")[1])
        fut = loop.create_future()
        pending[i] = fut
        ok = await fut
        return AM.SuccessMessage() if ok else M.ErrorMessage(message="engine refused", caller_error=True)
    world.dispatcher.rpc_call = rpc_call

    def settle():
        for _ in range(6):
            loop.run_until_complete(asyncio.sleep(0))

    def completed():
        out = []
        for i, t in sorted(tasks.items()):
            if t.done() and i not in reported:
                reported.add(i)
                if t.exception() is None:
                    out.append({"i": i, "res": "accepted", "ret": int(t.result())})
                else:
                    name = type(t.exception()).__name__
                    out.append({"i": i, "res": "rejected" if "Caller" in name else "failed", "ret": 0, "exc": name})
        return out

    evs = []
    for name, args in acts:
        if name == "Start":
            i, b = args
            method = Mdl.Method(lines=[Mdl.MethodLine(id="l0", content=f"save-{i}"), Mdl.MethodLine(id="l1", content="")], version=b, last_author=f"user{i}")
            tasks[i] = loop.create_task(ff.save_method(eid, method, Mdl.Contributor(id=f"user{i}", name=f"user{i}")))
            settle()
            evs.append({"a": "start", "i": i, "b": b, "done": completed(), "postVersion": int(ed.method.version)})
        elif name == "Reply":
            i, ok = args
            fut = pending.pop(i, None)
            if fut is None:
                # the engine has not received this save (the implementation has not forwarded it yet): the environment
                # cannot answer it -- this interleaving does not exist for this implementation
                continue
            fut.set_result(ok)
            settle()
            evs.append({"a": "reply", "i": i, "ok": ok, "done": completed(), "postVersion": int(ed.method.version)})
    # answer everything that is still at the engine, then nothing may be left unfinished
    for _ in range(4):
        for i in sorted(pending):
            pending.pop(i).set_result(True)
            settle()
            evs.append({"a": "reply", "i": i, "ok": True, "done": completed(), "postVersion": int(ed.method.version)})
    left = [i for i, t in sorted(tasks.items()) if not t.done()]
    for t in tasks.values():
        if not t.done():
            t.cancel()
    settle()
    evs.append({"a": "end", "pending": left})
    world.disconnect_ws(eid)
    return {"id": tid, "ev": evs}


def run(ctx: core.Ctx) -> core.Outcome:
    ok = tlc.run_tlc("MethodSave", "MethodSave.cfg", workers=4, timeout=600)
    if not ok.ok:
        raise core.MachineryFailure(f"design spec MethodSave (serialized) violates {ok.violated}")
    race = tlc.run_tlc("MethodSave", "MethodSaveRace.cfg", workers=1, timeout=600)
    if race.ok:
        raise core.MachineryFailure("the unserialized protocol is expected to violate AtMostOneAcceptedPerBase (vacuity guard)")
    scratch = tlc.new_scratch("ms")
    try:
        res = tlc.dump_graph("MethodSave", "MethodSaveSchedules.cfg",
                             scratch / "g.dot", timeout=900)
        g = dotgraph.Graph.load(scratch / "g.dot")
    finally:
        tlc.rm_scratch(scratch)
    paths, total = g.edge_cover_paths(max_len=8, seed=ctx.seed)
    world = AggWorld()
    traces = []
    try:
        for i, (_l, nodes) in enumerate(paths):
            acts = []
            for n in nodes[1:]:
                name, args = g.var(n, "last")
                acts.append((str(name), [tlaval.to_py(a) for a in args]))
            traces.append(_replay(world, acts, f"g{i}", i))
            if i % 100 == 99:
                world.fresh_db()
    finally:
        world.close()
    verdicts, tstats = core.validate_traces("MethodSaveTrace", traces)
    by_id = {t["id"]: t for t in traces}
    viols = []
    for tid, vs in verdicts.items():
        for clause, line in vs:
            t = by_id[tid]
            viols.append(core.Violation(key=clause + "@save_method", case=tid, detail=f"interleaving={t['ev'][:line]}",
                                        replay={"trace": t, "line": line}))
    conc = sum(1 for t in traces if any(e["a"] == "start" and not e["done"] for e in t["ev"])
               and sum(1 for e in t["ev"] if e["a"] == "start") >= 2)
    cov = dict(states=ok.distinct + res.distinct, transitions=ok.generated + res.generated, traces_validated_against_impl=len(traces),
               interleavings_with_overlapping_saves=conc, graph_edges=total, race_counterexample_found=True, exhaustive=True,
               **tstats, samples=[traces[len(traces) // 2]["ev"], traces[-1]["ev"]])
    return core.Outcome(level="model_checking", coverage=cov, violations=viols, assumptions=[
        "the engine round trip is the fake dispatcher's rpc_call, answered in the order the interleaving prescribes",
        "an interleaving that answers a request the implementation has not forwarded yet is skipped (not enabled)"])
