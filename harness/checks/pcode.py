"""C17: parse structure.  PCode.tla is the reference (parent = nearest enclosing opener one level shallower; first offending
indentation), its laws checked by TLC over all short texts; every line sequence up to the bound is rendered to P-code, parsed by
the real PcodeParser and judged by PCodeTrace.tla; arbitrary unicode text is parsed for totality."""
from __future__ import annotations

import itertools
import random

from .. import core, tlc

INDENTS = [0, 2, 4, 8, 12]
OPENERS = ["Block: B{}", "Watch: A > {}", "Alarm: A < {} L", "Macro: M{}"]
LEAVES = ["Mark: m{}", "Wait: {}s", "End block", "Stop", "Pause: 1s", "Unknowncmd: {}", "0.5 Mark: t{}", "Mark"]


def _render(lines, rnd):
    out = []
    for k, (ind, cls) in enumerate(lines):
        if cls == "O":
            body = rnd.choice(OPENERS).format(k)
        elif cls == "L":
            body = rnd.choice(LEAVES).format(k)
        elif cls == "C":
            body = "# note"
        else:
            body = ""
        out.append(" " * ind + body)
    return out


def _parse(text_lines, struct):
    from openpectus.lang.model.parser import ParserMethod, ParserMethodLine, create_method_parser
    import openpectus.lang.model.ast as ast
    method = ParserMethod(lines=[ParserMethodLine(id=f"L{i + 1}", content=c) for i, c in enumerate(text_lines)])
    ev = {"lines": [list(x) for x in struct], "n": len(text_lines), "exc": "none", "nodes": [], "text": text_lines}
    try:
        program = create_method_parser(method, uod_command_names=["Unknown"]).parse_method(method)
        nodes = []

        def walk(node, parent_line):
            for ch in getattr(node, "children", []) or []:
                line = ch.position.line + 1
                nodes.append({"line": line, "idOk": ch.id == f"L{line}", "parent": parent_line, "err": bool(ch.indent_error)})
                if isinstance(ch, ast.NodeWithChildren):
                    walk(ch, line)
        walk(program, 0)
        ev["nodes"] = nodes
    except Exception as ex:
        ev["exc"] = type(ex).__name__
    return ev


def run(ctx: core.Ctx) -> core.Outcome:
    res = tlc.run_tlc("PCode", "PCode.cfg" if ctx.quick else "PCodeDeep.cfg", workers=16, timeout=1200)
    if not res.ok:
        raise core.MachineryFailure(f"reference PCode violates its law {res.violated}")
    rnd = random.Random(ctx.seed)
    alphabet = [(i, c) for i in INDENTS for c in "OLBC"]
    structs = []
    for n in range(1, 4):
        structs += list(itertools.product(alphabet, repeat=n))
    four = list(itertools.product(alphabet, repeat=4))
    if ctx.quick:
        rnd.shuffle(four)
        four = four[:20000]
    structs += four
    # deeper, mostly well-formed texts: random walks over allowed indentations with occasional faults
    for _ in range(3000 if ctx.quick else 60000):
        n = rnd.randint(5, 9)
        seq, prev, prev_open = [], 0, False
        for _ in range(n):
            cls = rnd.choice("OOLLLBC")
            if cls in "BC":
                seq.append((rnd.choice(INDENTS), cls))
                continue
            choices = [d for d in range(0, prev + 1, 4)] + ([prev + 4] if prev_open else [])
            d = rnd.choice(choices) if rnd.random() < 0.9 else rnd.choice(INDENTS)
            seq.append((d, cls))
            prev, prev_open = d, cls == "O"
        structs.append(tuple(seq))
    evs = [_parse(_render(s, rnd), s) for s in structs]
    # totality on free text
    junk_chars = list(" \t:#>=<!-+*/%0123456789aZ_é µ ​ '\"\\.,;()[]{}") + ["Mark", "Watch", "Block", "    ", "  "]
    for _ in range(2000 if ctx.quick else 40000):
        lines = ["".join(rnd.choice(junk_chars) for _ in range(rnd.randint(0, 12))) for _ in range(rnd.randint(1, 5))]
        lines = [x.replace("\n", " ").replace("\r", " ").replace(" ", " ") for x in lines]
        evs.append(_parse(lines, ()))
    traces = [{"id": f"chunk{i}", "ev": evs[i:i + 2000]} for i in range(0, len(evs), 2000)]
    verdicts, tstats = core.validate_traces("PCodeTrace", traces, max_events=150000, timeout=3000)
    by_id = {t["id"]: t for t in traces}
    viols = []
    for tid, vs in verdicts.items():
        for clause, line in vs:
            e = by_id[tid]["ev"][line - 1]
            viols.append(core.Violation(key=clause, case=f"{tid}#{line}",
                                        detail=f"text={e['text']} lines={e['lines']} nodes={e['nodes']} exc={e['exc']}",
                                        replay={"event": e}))
    bad = sum(1 for e in evs if e["lines"] and any(n["err"] for n in e["nodes"]))
    cov = dict(evaluations=len(evs), distinct_nontrivial=len({tuple(e["text"]) for e in evs}), texts_with_flagged_indentation=bad,
               rule="all line sequences of length <= 3 (quick: + 20000 of length 4; thorough: all 160000) over indent {0,2,4,8,12} x "
                    "class {opener, leaf, blank, comment}, rendered with varying instructions; random 5-9 line texts; random "
                    "unicode junk for totality; distinct = distinct texts",
               reference_law_states=res.distinct, **tstats, samples=[evs[100]["text"], evs[-1]["text"]])
    return core.Outcome(level="exploration", coverage=cov, violations=viols, assumptions=[
        "blank and comment lines are not judged for their parent; after the first offending line parents are not judged",
        "an opener may have an empty body (next instruction at the same indentation)"])
