"""C27: EngineRunner.  Runner.tla (TLC: the intended design keeps NoLoss / NoStranded / AtMostOnce / StopImpliesData; the
configuration that sends live messages at once while catching up, as the code does, violates the ordering) and RunnerTrace.tla
judging executions of the real EngineRunner: its timer task, state tasks and reconnect back-off run on a virtual-time asyncio
loop against a scripted dispatcher (connect / send fail while the scripted network is down, sends take scripted delays) and a
message builder that hands out numbered messages."""
from __future__ import annotations

import asyncio
import random

from .. import core, tlc, vloop


class Msg:
    def __init__(self, n, kind, run):
        self.n, self.kind, self.run = n, kind, run
        self.sequence_number = -1
        self.engine_id = None

    @property
    def ident(self):
        return f"{self.kind}#{self.n}"


class World:
    def __init__(self, rnd):
        self.rnd = rnd
        self.ev = []
        self.net_up = True           # the aggregator is reachable
        self.conn_ok = True          # the websocket of the current connection is alive: lost when the net goes down, and
        #                              only a new connect_async brings one back (a send cannot succeed on a dead socket)
        self.pending = 0
        self.count = 0
        self.loop = None
        self.closing = False

    def log(self, **kw):
        kw["t"] = round(self.loop.time(), 3) if self.loop else 0.0
        self.ev.append(kw)

    def make(self, kind, run=None):
        if self.closing:              # the engine has gone quiet: nothing new is produced before the final clauses
            return None
        self.count += 1
        m = Msg(self.count, kind, run or "")
        self.log(e="made", n=m.n, kind=kind, run=m.run)
        return m


def _builder(world, runner_ref):
    class B:
        def create_uod_info(self): return world.make("uod")
        def create_method_msg(self): return world.make("method")
        def create_tag_updates_snapshot_msg(self): return world.make("snapshot")
        def create_control_state_msg(self): return world.make("control") if world.rnd.random() < 0.3 else None
        def create_method_state_msg(self): return world.make("mstate") if world.rnd.random() < 0.3 else None
        def create_error_log_msg(self): return None
        def create_runlog_msg(self, run_id): return world.make("runlog", run_id) if world.rnd.random() < 0.3 else None

        def create_tag_updates_msg(self, run_id):
            if world.pending == 0:
                return None
            world.pending = 0
            return world.make("data", run_id)
        def create_run_started_msg(self, run_id, t): return world.make("run_started", run_id)
        def create_run_stopped_msg(self, run_id): return world.make("run_stopped", run_id)
        def create_wpn_run_started_msg(self): return world.make("wpn")
        def create_wpn_run_stopped_msg(self): return world.make("wpn")
        def create_wpn_run_paused_msg(self): return world.make("wpn")
    return B()


def _dispatcher(world):
    from openpectus.protocol.engine_dispatcher import EngineDispatcher
    from openpectus.protocol.exceptions import ProtocolNetworkException
    import openpectus.protocol.messages as M

    class D(EngineDispatcher):
        def __init__(self):          # no urls, no websocket: only the sequence numbering of the real class is used
            self._sequence_number = 1
            self._engine_id = None

        async def connect_async(self):
            await asyncio.sleep(world.rnd.choice([0, 0.01, 0.2]))
            if not world.net_up:
                raise ProtocolNetworkException("scripted: aggregator unreachable")
            world.conn_ok = True
            self._engine_id = "engine-1"

        async def disconnect_async(self):
            await asyncio.sleep(0)

        async def send_async(self, message):
            message.engine_id = self._engine_id
            self.assign_sequence_number(message)
            # the request goes onto the websocket when send is called (arrival order = call order); what takes time, and
            # what a connection loss interrupts, is the wait for the response
            arrived = world.net_up and world.conn_ok
            if arrived:
                world.log(e="wire", n=message.n, seq=message.sequence_number)
            await asyncio.sleep(world.rnd.choice([0, 0, 0.005, 0.02, 0.15]))
            if not world.net_up or not world.conn_ok or not arrived:
                world.log(e="attempt", n=message.n, seq=message.sequence_number, ok=False)
                raise ProtocolNetworkException("scripted: connection closed")
            world.log(e="attempt", n=message.n, seq=message.sequence_number, ok=True)
            return M.SuccessMessage()
    return D()


async def _scenario(loop, world, script, quiet, react=None):
    from openpectus.engine.engine_runner import EngineRunner
    world.loop = loop
    disp = _dispatcher(world)
    emitter = type("E", (), {"add_listener": lambda self, x: None})()
    runner = EngineRunner(disp, _builder(world, None), emitter, loop)

    async def changing(old, new):
        world.log(e="state", old=old, new=new, buf=len(runner._message_buffer))
        if react is not None and new == react[0]:          # the engine does something exactly when the runner enters a state
            def act():
                if react[1] == "stop" and runner.run_id is not None:
                    world.pending += 1
                    runner.on_stop()
                elif react[1] == "data":
                    world.pending += 1
                world.log(e="script", act="react-" + react[1], arg=new)
            loop.call_later(react[2], act)
    runner.state_changing_callback = changing
    task = asyncio.create_task(runner.run())
    t0 = loop.time()
    for at, act, arg in script:
        delay = t0 + at - loop.time()
        if delay > 0:
            await asyncio.sleep(delay)
        if act == "down":
            world.net_up = False
            world.conn_ok = False
        elif act == "up":
            world.net_up = True
        elif act == "data":
            world.pending += 1
        elif act == "start":
            runner._on_before_start(arg)          # what the emitter does before on_start
            runner.on_start(arg)
        elif act == "stop" and runner.run_id is not None:
            runner.on_stop()
        world.log(e="script", act=act, arg=arg or "")
    world.net_up = True
    await asyncio.sleep(quiet)
    world.closing = True
    await asyncio.sleep(3.0)
    world.log(e="end", state=runner.state, buf=len(runner._message_buffer), bufIds=[m.n for m in runner._message_buffer])
    await runner.shutdown()
    await asyncio.wait_for(task, 30)
    return world.ev


def _script(rnd, n_faults):
    """engine life (runs with data ticks and stops) with network outages laid over it"""
    t, out, run = 2.0, [], 0
    for _ in range(rnd.randint(1, 3)):
        run += 1
        out.append((t, "start", f"run{run}"))
        for _ in range(rnd.randint(2, 12)):
            t += rnd.choice([0.1, 0.3, 0.5, 2.0])
            out.append((t, "data", None))
        t += rnd.choice([0.05, 0.1, 0.4, 1.0])
        out.append((t, "stop", None))
        t += rnd.choice([0.2, 1.0, 6.0])
    end = t
    for _ in range(n_faults):
        a = rnd.uniform(1.0, end + 2)
        out.append((a, "down", None))
        out.append((a + rnd.choice([0.05, 0.3, 1.0, 4.0, 12.0, 25.0]), "up", None))
    out.sort(key=lambda x: x[0])
    return out


def _one(seed, n_faults, react=None):
    rnd = random.Random(seed)
    random.seed(seed)                    # the runner's own reconnect back-off
    world = World(rnd)
    script = _script(rnd, n_faults)
    if react is not None:                # a long run that is still active when the outage ends
        script = [(2.0, "start", "run1")] + [(2.0 + 0.4 * k, "data", None) for k in range(1, 40)] + \
                 [(5.0 + rnd.uniform(0, 3), "down", None), (9.0 + rnd.uniform(0, 6), "up", None)]
        script.sort(key=lambda x: x[0])
    ev = vloop.run(_scenario, world, script, 90.0, react)
    return {"id": f"run-{seed}-{n_faults}" + (f"-{react[0]}-{react[1]}-{react[2]}" if react else ""), "ev": ev, "script": script}


def run(ctx: core.Ctx) -> core.Outcome:
    core.setup_repo_imports()
    ok = tlc.run_tlc("Runner", "Runner.cfg", workers=4, timeout=900)
    if not ok.ok:
        raise core.MachineryFailure(f"design spec Runner violates {ok.violated}")
    coded = tlc.run_tlc("Runner", "RunnerAsCoded.cfg", workers=1, timeout=900)
    n = 400 if ctx.quick else 5000
    traces = []
    for i in range(n):
        traces.append(_one(ctx.seed * 100003 + i, [0, 1, 1, 2, 3][i % 5]))
    for i in range(n // 4):              # the engine stops its run / produces data exactly while the runner recovers
        st = ["Reconnecting", "CatchingUp", "CatchingUp", "Disconnected", "Failed"][i % 5]
        traces.append(_one(ctx.seed * 100003 + 7000 + i, 1, (st, ["stop", "stop", "data"][i % 3], [0.0, 0.05, 0.12, 0.3][i % 4])))
    verdicts, stats = core.validate_traces("RunnerTrace", [{"id": t["id"], "ev": t["ev"]} for t in traces])
    by_id = {t["id"]: t for t in traces}
    viols = []
    for tid, vs in verdicts.items():
        for clause, line in vs:
            t = by_id[tid]
            viols.append(core.Violation(key=clause, case=tid, detail=f"event#{line}={t['ev'][line - 1]} script={t['script'][:14]}",
                                        replay={"script": t["script"], "line": line, "event": t["ev"][line - 1], "events": t["ev"][max(0, line - 25):line + 2]}))
    made = sum(1 for t in traces for e in t["ev"] if e["e"] == "made")
    att = sum(1 for t in traces for e in t["ev"] if e["e"] == "attempt")
    failed = sum(1 for t in traces for e in t["ev"] if e["e"] == "attempt" and not e["ok"])
    states = {}
    for t in traces:
        for e in t["ev"]:
            if e["e"] == "state":
                states[e["new"]] = states.get(e["new"], 0) + 1
    cov = dict(states=ok.distinct, transitions=ok.generated, design_spec="Runner", as_coded_design_violates=coded.violated or "nothing",
               traces_validated_against_impl=len(traces), executions=len(traces), messages=made, send_attempts=att, failed_attempts=failed, state_changes=states, **stats,
               samples=[{"script": traces[1]["script"][:12]}, {"script": traces[-1]["script"][-8:]}])
    return core.Outcome(level="model_checking", coverage=cov, violations=viols, assumptions=[
        "virtual-time asyncio loop; the dispatcher is the real class with connect / send scripted (sequence numbering is the real code)",
        "the message builder hands out numbered stand-in messages; engine events (run start / data / stop) come from the script",
        "every execution ends with 90 s of working network before the final clauses are evaluated"])
