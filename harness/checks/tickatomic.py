"""C40: requests versus the ticking thread.  TickAtomic.tla (TLC: with the engine lock every interleaving is atomic, without it
TLC finds the race) gives the scheduling points; for every point, request kind and scenario the real Engine is ticked in one
thread while a second thread issues the request when the tick thread reaches the point (hooks in /repo, active with
OPENPECTUS_VERIF=1).  The outcome is compared with the two sequential executions; TickAtomicTrace.tla judges."""
from __future__ import annotations

import threading

from .. import core, dotgraph, tlc

SCENARIOS = {
    "wait-and-command": ["Base: s", "Mark: a", "Long", "Wait: 0.8s", "Mark: b", "Short", "Mark: c", ""],
    "watch-and-block": ["Base: s", "Watch: In > 2 L/h", "    Mark: w", "    Long", "Block: B", "    Mark: b1", "    Wait: 0.5s", "    End block",
                        "Mark: z", ""],
}
# the tick of the experiment is the one that completes a Stop (the engine replaces its interpreter and command manager in it)
STOPPING = {"stop-completes": ["Base: s", "Mark: a", "Long", "Wait: 2s", "Mark: b", ""]}
WARMUP = 7
TAIL = 8


def _request(run, kind):
    if kind == "edit":
        return run.edit_op("append", "Mark: appended")
    if kind == "inject":
        return run.inject("Mark: inj")
    if kind == "control":
        return run.control("Pause")
    if kind == "start":
        return run.control("Start")
    if kind == "cancel":
        return run.cancel(_item(run, "Long"))
    if kind == "force":
        return run.force(_item(run, "Wait"))
    raise ValueError(kind)


def _item(run, name):
    for e in run.events:
        if e["e"] == "item" and e["name"].startswith(name):
            return e["id"]
    return 1


def _digest(run):
    s = run.snapshot()
    uod = [(e["e"], e["name"], e["it"]) for e in run.events if e["e"] in ("init", "exec", "finalize")]
    rl = sorted((i["name"], i["state"], i["cancelled"], i["forced"]) for i in s["runlog"])
    return repr((s["state"], s["paused"], s["holding"], s["status"], s["mark"], s["out"], s["block"], s["inst"], s["mstate"], rl, uod,
                 [c for _, c in getattr(run, "cur_lines", [])]))


def _fresh(method):
    from ..engdriver import EngineRun
    r = EngineRun(method)
    r.control("Start")
    for _ in range(WARMUP):
        r.tick(0.1, {"In": 3.0})
    if method in STOPPING.values():
        r.control("Stop")
        r.tick(0.1, {"In": 3.0})          # first tick of the Stop; the next one completes it
    return r


def _sequential(method, kind, first):
    r = _fresh(method)
    try:
        if first == "request":
            res = _request(r, kind)
            r.tick(0.1, {"In": 3.0})
        else:
            r.tick(0.1, {"In": 3.0})
            res = _request(r, kind)
        for _ in range(TAIL):
            r.tick(0.1, {"In": 3.0})
        return repr("rejected" if res == "rejected" else "accepted") + _digest(r)     # what the requester was told + the final state
    finally:
        r.close()


def _concurrent(method, kind, point, occurrence):
    import openpectus.lang.exec.pinterpreter as pi
    r = _fresh(method)
    st = {"seen": 0, "thread": None, "inside": False, "exc": "none", "fired": False}

    def body():
        try:
            st["res"] = _request(r, kind)
        except Exception as ex:
            st["exc"] = type(ex).__name__

    def hook(name):
        if name != point or st["fired"]:
            return
        st["seen"] += 1
        if st["seen"] < occurrence:
            return
        st["fired"] = True
        t = threading.Thread(target=body, daemon=True)
        st["thread"] = t
        t.start()
        t.join(0.12)                       # long enough for any request; a request that needs the engine lock is still waiting
        st["inside"] = not t.is_alive()
    try:
        if point == "between-ticks":
            st["fired"] = True
            st["res"] = _request(r, kind)
            st["inside"] = False
        pi.verif_point_hook = hook
        try:
            r.tick(0.1, {"In": 3.0})
        finally:
            pi.verif_point_hook = None
        completed = True
        if st["thread"] is not None:
            st["thread"].join(5)
            completed = not st["thread"].is_alive()
        tick_exc = r.raised or "none"
        for _ in range(TAIL):
            r.tick(0.1, {"In": 3.0})
        return dict(fired=st["fired"], ranInside=st["inside"], reqExc=st["exc"], tickExc=(r.raised or tick_exc)[:80], completed=completed,
                    digest=repr("rejected" if st.get("res") == "rejected" else "accepted") + _digest(r))
    finally:
        r.close()


def run(ctx: core.Ctx) -> core.Outcome:
    core.setup_repo_imports()
    import openpectus.lang.exec.pinterpreter as pi
    if pi._verif_point.__code__.co_code == (lambda name: None).__code__.co_code:
        raise core.MachineryFailure("verification points are inactive: OPENPECTUS_VERIF=1 must be set before openpectus is imported")
    ok = tlc.run_tlc("TickAtomic", "TickAtomic.cfg", workers=4, timeout=600)
    if not ok.ok:
        raise core.MachineryFailure(f"design spec TickAtomic (guarded) violates {ok.violated}")
    race = tlc.run_tlc("TickAtomic", "TickAtomicRace.cfg", workers=1, timeout=600)
    if race.ok:
        raise core.MachineryFailure("without the lock TickAtomic is expected to violate Atomic (vacuity guard)")
    scratch = tlc.new_scratch("ta")
    try:
        tlc.dump_graph("TickAtomic", "TickAtomic.cfg", scratch / "g.dot", timeout=600, workers=1)
        g = dotgraph.Graph.load(scratch / "g.dot")
        points = sorted({str(g.var(n, "firedAt")) for n in g.labels} - {""})
    finally:
        tlc.rm_scratch(scratch)
    evs = []
    for scen, method in list(SCENARIOS.items()) + list(STOPPING.items()):
        for kind in (("edit", "inject", "control", "cancel", "force") if scen in SCENARIOS else ("start", "edit", "inject")):
            before = _sequential(method, kind, "request")
            after = _sequential(method, kind, "tick")
            for point in points:
                occs = (1, 2) if point == "interpreter:subtick" else (1,)
                for occ in occs:
                    res = _concurrent(method, kind, point, occ)
                    if not res["fired"]:
                        continue
                    outcome = "request-then-tick" if res["digest"] == before else ("tick-then-request" if res["digest"] == after else "neither")
                    evs.append({"e": "exp", "scenario": scen, "kind": kind, "point": point, "occurrence": occ, "ranInside": res["ranInside"],
                                "outcome": outcome, "tickExc": res["tickExc"], "reqExc": res["reqExc"], "completed": res["completed"]})
    trace = {"id": "tickatomic", "ev": evs}
    verdicts, stats = core.validate_traces("TickAtomicTrace", [trace])
    viols = []
    for tid, vs in verdicts.items():
        for clause, line in vs:
            e = evs[line - 1]
            viols.append(core.Violation(key=clause, case=f"{e['scenario']} {e['kind']} at {e['point']}#{e['occurrence']}", detail=str(e),
                                        replay={"event": e, "method": {**SCENARIOS, **STOPPING}[e["scenario"]]}))
    cov = dict(states=ok.distinct, transitions=ok.generated, design_spec="TickAtomic", race_found_without_lock=not race.ok,
               traces_validated_against_impl=len(evs), samples=evs[:2],
               points=points, experiments=len(evs), ran_inside=sum(1 for e in evs if e["ranInside"]),
               outcomes={o: sum(1 for e in evs if e["outcome"] == o) for o in ("request-then-tick", "tick-then-request", "neither")}, **stats)
    return core.Outcome(level="model_checking", coverage=cov, violations=viols, assumptions=[
        "two real threads; the request thread is started when the tick thread reaches the named point and is given 0.12 s, which "
        "every request needs far less than; a request still running after that is waiting for the engine lock",
        "the final states are compared after 8 more ticks with those of the two sequential executions on fresh engines"])
