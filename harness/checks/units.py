"""C21: unit-aware comparison.  Units.tla is the reference operator (exact comparison of physical quantities with small
integers) whose algebraic laws TLC checks over a grid; the real compare_values / are_comparable are run over all pairs of
supported units and a value grid built around the exact conversion points, and UnitsTrace.tla compares every result."""
from __future__ import annotations

import random
from decimal import Decimal
from fractions import Fraction

from .. import core, tlc

OPS = ["<", "<=", "=", "==", ">", ">=", "!="]
TEMP = ["K", "degC", "°C", "degF", "°F"]


def _s(v):
    """decimal literal of the value [s, m, e, eps]"""
    import decimal
    with decimal.localcontext() as c:
        c.prec = 80
        d = Decimal(v["s"] * v["m"]).scaleb(v["e"]) + v["eps"] * Decimal("1e-20")
        t = format(d, "f")
    sp = v.get("sp", 0)          # other spellings of the same number: the comparison is about the quantity, not the text
    if sp == 1:
        t = t + ("0" if "." in t else ".0")
    elif sp == 2:
        t = t + ("00" if "." in t else ".00")
    elif sp == 3 and v["m"] == 0:
        t = "-" + t if not t.startswith("-") else t
    elif sp == 3:
        t = "0" + t if not t.startswith("-") else "-0" + t[1:]
    return t


def _val(m, e, eps=0, s=1):
    return {"s": s, "m": m, "e": e, "eps": eps}


_FRAC = {}


def _ratio_point(ua, ub, a):
    """the value in unit ub that is physically equal to a (in ua), as [s,m,e,0] if it is a short decimal; computed with an
    independent exact (Fraction) unit registry -- used only to *propose inputs* near the points where results flip"""
    import pint
    if "reg" not in _FRAC:
        reg = pint.UnitRegistry(non_int_type=Fraction)
        for d in ("m3 = m**3", "m2 = m**2", "dm2 = dm**2", "cm2 = cm**2", "LMH = mm/h", "wt = 1", "vol = 1",
                  "AU = [absorbance]", "CV = [cv]"):
            try:
                reg.define(d)
            except Exception:
                pass
        _FRAC["reg"] = reg
    reg = _FRAC["reg"]
    try:
        x = Fraction(a["s"] * a["m"]) * Fraction(10) ** a["e"]
        y = reg.Quantity(x, ua).to(ub).magnitude
        y = Fraction(y)
    except Exception:
        return None
    s = 1 if y >= 0 else -1
    y = abs(y)
    for e in range(-6, 7):
        m = y / Fraction(10) ** e
        if m.denominator == 1 and m.numerator < 10 ** 7 and (m.numerator % 10 != 0 or m.numerator == 0):
            return _val(int(m.numerator), e if m.numerator else 0, 0, s)
    return None


def _grid(ua, ub, rnd, quick):
    """value pairs for a unit pair: every base value a (also +-1e-20) against the physically equal value in the other
    unit (also +-1e-20) -- the points where the comparison flips -- plus a few unrelated pairs"""
    temp = ua in TEMP
    if temp:
        base = [_val(0, 0), _val(32, 0), _val(100, 0), _val(212, 0), _val(27315, -2), _val(40, 0, 0, -1), _val(45967, -2, 0, -1),
                _val(5, -1), _val(1, 0), _val(37, 0)]
    else:
        base = [_val(0, 0), _val(1, 0), _val(864, 0), _val(864, -3), _val(36, 2), _val(6, 1), _val(24, 0), _val(1, 5),
                _val(5, -1), _val(1, 0, 0, -1), _val(864, 1, 0, -1)]
    pairs = []
    for a in base:
        bs = [b for b in (_ratio_point(ua, ub, a), a if ua == ub else None, _val(1, 0), _val(864, -1)) if b is not None]
        for b in bs:
            for ea in (0, 1, -1):
                for eb in (0, 1, -1):
                    pairs.append((dict(a, eps=ea), dict(b, eps=eb)))
    if quick:
        pairs = [p for i, p in enumerate(pairs) if p[0]["eps"] == 0 or p[1]["eps"] == 0 or i % 3 == 0]
    # the same numbers written differently ("0" / "0.0" / "-0", "5" / "5.0" / "05"): one side, then the other
    spelled = []
    for a, b in pairs:
        if a["eps"] == 0 and b["eps"] == 0:
            for sp in (1, 2, 3):
                spelled.append((dict(a, sp=sp), b))
                spelled.append((a, dict(b, sp=sp)))
    if quick:
        spelled = [p for i, p in enumerate(spelled) if i % 2 == 0 or p[0]["m"] == 0 or p[1]["m"] == 0]
    return pairs + spelled


def _temp_ok(v):
    # the reference keeps temperatures in 32-bit range
    return -2 <= v["e"] <= 1 and v["m"] * 10 ** (v["e"] + 2) <= 1_000_000


def _lin_ok(v):
    return v["m"] < 10 ** 6 and -6 <= v["e"] <= 6


def _fits(a, b):
    """both operands (and their conversions into the other unit, which have the other operand's magnitude) must be exactly
    representable in the 28 significant digits a Decimal computation keeps: with a 1e-20 perturbation that means < 10^6"""
    if a["eps"] == 0 and b["eps"] == 0:
        return True
    return all(v["m"] * 10.0 ** v["e"] < 1e6 for v in (a, b))


def run(ctx: core.Ctx) -> core.Outcome:
    from openpectus.lang.exec import units as U
    res = tlc.run_tlc("Units", "Units.cfg" if ctx.quick else "UnitsDeep.cfg", workers=16, timeout=1500)
    if not res.ok:
        raise core.MachineryFailure(f"reference operator Units violates its own law {res.violated}")
    rnd = random.Random(ctx.seed)
    supported = [u for u in U.get_supported_units() if u is not None]
    traces = []
    ncases = 0
    results = set()
    # comparability table: all ordered pairs incl. None
    ev = []
    allu = supported + [None]
    for ua in allu:
        for ub in allu:
            def call(x, y):
                try:
                    return "T" if U.are_comparable(x, y) else "F"
                except Exception as ex:
                    return type(ex).__name__
            ev.append({"k": "comparable", "ua": ua or "none", "ub": ub or "none", "ab": call(ua, ub), "ba": call(ub, ua)})
    traces.append({"id": "comparable", "ev": ev})
    ncases += len(ev)
    by_q = {}
    for q, us in U.QUANTITY_UNIT_MAP.items():
        for u in us:
            by_q.setdefault(q, []).append(u)
    for q, us in by_q.items():
        for ua in us:
            for ub in us:
                ev = []
                for a, b in _grid(ua, ub, rnd, ctx.quick):
                    if ua in TEMP and not (_temp_ok(a) and _temp_ok(b)):
                        continue
                    if ua not in TEMP and not (_lin_ok(a) and _lin_ok(b)):
                        continue
                    if not _fits(a, b):
                        continue
                    for op in OPS:
                        try:
                            r = "T" if U.compare_values(op, _s(a), ua, _s(b), ub) else "F"
                        except Exception as ex:
                            r = type(ex).__name__
                        results.add((ua, ub, op, r))
                        ev.append({"k": "cmp", "op": op, "ua": ua, "ub": ub, "a": a, "b": b, "res": r,
                                   "sa": _s(a), "sb": _s(b)})
                ncases += len(ev)
                traces.append({"id": f"{ua}~{ub}", "ev": ev})
    verdicts, tstats = core.validate_traces("UnitsTrace", traces)
    by_id = {t["id"]: t for t in traces}
    viols = []
    for tid, vs in verdicts.items():
        for clause, line in vs:
            e = by_id[tid]["ev"][line - 1]
            viols.append(core.Violation(key=clause, case=f"{tid}#{line}", detail=str({k: v for k, v in e.items() if k not in ("a", "b")}),
                                        replay={"event": e}))
    cov = dict(evaluations=ncases, distinct_nontrivial=len(results),
               rule="every ordered pair of supported units of one quantity x a value grid around the exact conversion points "
                    "(each value also +-1e-20) x 7 operators, plus the full are_comparable table; distinct = distinct "
                    "(unit a, unit b, operator, outcome) combinations observed",
               reference_law_states=res.distinct, unit_pairs=len(traces) - 1, **tstats,
               samples=[traces[1]["ev"][0], traces[-1]["ev"][-1]])
    return core.Outcome(level="exploration", coverage=cov, violations=viols, assumptions=[
        "mixed percentage units (%, vol%, wt%, mol%) have no defined physical relation: only symmetry of comparability is checked",
        "values are decimal literals of at most 4 significant digits, optionally +-1e-20"])
