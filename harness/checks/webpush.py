"""C33: push notification recipients.  WebPush.tla (laws of the entitlement relation, TLC over a small universe) and
WebPushTrace.tla, which recomputes WebPushDef!Recipients for every recorded call of the real
WebPushPublisher.publish_message working on the real WebPushRepository (sqlite) and compares it with the subscriptions that
reached the HTTP post (stubbed)."""
from __future__ import annotations

import asyncio
import itertools
import random

from .. import core, tlc
from ..aggdriver import AggWorld

ROLES = ["r1", "r2", "r3"]
USERS = ["u1", "u2", "u3", "None"]
UNITS = ["e1", "e2", "e10"]          # e1 is a prefix of e10: membership must not be a substring test
SCOPES = {"access": "PROCESS_UNITS_I_HAVE_ACCESS_TO", "contributed": "PROCESS_UNITS_WITH_RUNS_IVE_CONTRIBUTED_TO",
          "specific": "SPECIFIC_PROCESS_UNITS"}
TOPICS = ["run_start", "run_stop", "run_pause", "block_start", "notification_cmd", "watch_triggered", "new_contributor",
          "method_error", "network_errors"]


def _publisher():
    from openpectus.aggregator.webpush_publisher import WebPushPublisher
    pub = object.__new__(WebPushPublisher)          # no VAPID key files, no network
    pub.webpush_keys_path = ""
    pub.wp = object()
    pub.app_server_key = "k"
    pub.posted = []

    async def post(subscription, repo, notification):
        pub.posted.append(int(subscription.id))
    pub._post_webpush = post
    return pub


def _case(world: AggWorld, rnd: random.Random, cid: str, forced=None):
    """one database and a history on it: preferences stored (and stored again with other roles / scope / topics / units),
    devices subscribed, notifications published in between"""
    import openpectus.aggregator.models as Mdl
    from openpectus.aggregator.data import database
    from openpectus.aggregator.data.repository import WebPushRepository
    import openpectus.aggregator.data.models as DMdl
    from sqlalchemy import select
    from webpush import WebPushSubscription
    from webpush.types import WebPushKeys, AnyHttpUrl
    world.fresh_db()
    cur: dict[str, dict] = {}          # harness mirror, used only to label the site of a missing delivery
    subs: list[dict] = []
    ev = []
    pub = _publisher()
    ndev = [0]

    def rand_pref(u):
        return {"user": u, "roles": sorted(rnd.sample(ROLES, rnd.randint(0, 2))), "scope": rnd.choice(list(SCOPES)),
                "topics": sorted(rnd.sample(TOPICS, rnd.randint(0, 4))), "units": sorted(rnd.sample(UNITS, rnd.randint(0, 2)))}

    def store(p):
        with database.create_scope():
            WebPushRepository(database.scoped_session()).store_notifications_preferences(Mdl.WebPushNotificationPreferences(
                user_id=p["user"], user_roles=set(p["roles"]), scope=Mdl.NotificationScope(SCOPES[p["scope"]].lower()),
                topics=set(Mdl.NotificationTopic(t) for t in p["topics"]), process_units=list(p["units"])))
        cur[p["user"]] = p
        ev.append({"e": "store", "pref": p})

    def subscribe(u):
        ndev[0] += 1
        with database.create_scope():
            WebPushRepository(database.scoped_session()).store_subscription(
                WebPushSubscription(endpoint=AnyHttpUrl(f"https://push.invalid/{u}/{ndev[0]}"), keys=WebPushKeys(auth="a", p256dh="p")), u)
        with database.create_scope():
            rows = [{"id": int(x.id), "user": str(x.user_id)} for x in database.scoped_session().scalars(select(DMdl.WebPushSubscription)).all()]
        for r in rows:
            if r not in subs:
                subs.append(r)
                ev.append({"e": "subscribe", "id": r["id"], "user": r["user"]})

    def publish():
        unit = rnd.choice(UNITS)
        ed = _engine_data(unit)
        ed.required_roles = set(rnd.sample(ROLES, rnd.choice([0, 0, 1, 2])))
        contributors = rnd.sample([u for u in USERS if u != "None"], rnd.randint(0, 2))
        ed.contributors = {Mdl.Contributor(id=c, name=c.upper()) for c in contributors}
        topic = rnd.choice(TOPICS + ["new_contributor"] * 3)
        about = rnd.choice(contributors) if topic == "new_contributor" and contributors else ""
        note = Mdl.WebPushNotification(title="t", body="b", data=Mdl.WebPushData(process_unit_id=unit, contributor_id=about or None))
        pub.posted, exc = [], "none"
        try:
            asyncio.run(pub.publish_message(note, Mdl.NotificationTopic(topic), ed))
        except Exception as ex:
            exc = type(ex).__name__ + ": " + str(ex)[:80]
        prefs = list(cur.values())
        ev.append({"e": "publish", "topic": topic, "unit": unit, "required": sorted(ed.required_roles), "contributors": sorted(contributors),
                   "about": about, "posted": list(pub.posted), "exc": exc,
                   "scopeOfFirstMissing": _first_missing_scope(prefs, subs, pub.posted, topic, unit, ed.required_roles, contributors, about)})

    users = [u for u in USERS if rnd.random() >= 0.2]
    for u in users:
        if rnd.random() < 0.5:
            store(rand_pref(u))                      # an earlier version of the user's preferences; the next store replaces it
        p = rand_pref(u)
        if forced:
            p.update(forced.get(u, {}))
        store(p)
        for _ in range(rnd.randint(0, 3)):
            subscribe(u)
    for k in range(8):
        r = rnd.random()
        if r < 0.25 and users:
            u = rnd.choice(users)                    # the user's roles / choices change: stored again under the same user id
            p = rand_pref(u)
            if forced and k < 4:
                p.update(forced.get(u, {}))
            store(p)
        elif r < 0.33 and users:
            subscribe(rnd.choice(users))
        else:
            publish()
    publish()
    return {"id": cid, "ev": ev}


def _engine_data(unit):
    import inspect
    import openpectus.aggregator.models as Mdl
    sig = inspect.signature(Mdl.EngineData.__init__)
    kw = {}
    for name, par in sig.parameters.items():
        if name == "self":
            continue
        if name == "engine_id":
            kw[name] = unit
        elif name == "required_roles":
            kw[name] = set()
        elif name == "data_log_interval_seconds":
            kw[name] = 1.0
        elif par.default is inspect.Parameter.empty:
            kw[name] = ""
    return Mdl.EngineData(**kw)


def _first_missing_scope(prefs, subs, posted, topic, unit, required, contributors, about):
    """only a label for the clause site (which scope the first missing subscription's user has); the verdict is TLC's"""
    by_user = {p["user"]: p for p in prefs}
    for s in subs:
        p = by_user.get(s["user"])
        if p is None or s["id"] in posted or topic not in p["topics"]:
            continue
        if required and not (set(required) & set(p["roles"])):
            continue
        if topic == "new_contributor" and about and s["user"] == about:
            continue
        ok = p["scope"] == "access" or (p["scope"] == "contributed" and s["user"] in contributors) or \
            (p["scope"] == "specific" and unit in p["units"])
        if ok:
            return p["scope"]
    return ""


def run(ctx: core.Ctx) -> core.Outcome:
    core.setup_repo_imports()
    res = tlc.run_tlc("WebPush", "WebPush.cfg", workers=12, timeout=1500)
    if not res.ok:
        raise core.MachineryFailure(f"design spec WebPush violates {res.violated}")
    rnd = random.Random(ctx.seed)
    world = AggWorld()
    n = 400 if ctx.quick else 4000
    traces = []
    # directed: every scope x (access yes/no) x (topic selected yes/no) for u1, two devices
    k = 0
    for scope, roles, topics in itertools.product(SCOPES, ([], ["r1"], ["r2", "r3"]), ([], ["run_start"], ["new_contributor", "run_stop"])):
        traces.append(_case(world, rnd, f"dir-{k}", forced={"u1": {"scope": scope, "roles": roles, "topics": topics}}))
        k += 1
    for i in range(n):
        traces.append(_case(world, rnd, f"rnd-{i}"))
    verdicts, stats = core.validate_traces("WebPushTrace", traces)
    viols = []
    by_id = {t["id"]: t for t in traces}
    for tid, vs in verdicts.items():
        for clause, line in vs:
            ev = by_id[tid]["ev"][line - 1]
            viols.append(core.Violation(key=clause, case=tid, detail=str({k: v for k, v in ev.items()})[:600], replay={"event": ev}))
    posts = sum(len(e["posted"]) for t in traces for e in t["ev"] if e["e"] == "publish")
    restores = sum(max(0, sum(1 for e in t["ev"] if e["e"] == "store" and e["pref"]["user"] == u) - 1)
                   for t in traces for u in USERS)
    cov = dict(states=res.distinct, transitions=res.generated, design_spec="WebPush", traces_validated_against_impl=len(traces),
               samples=[{k: v for k, v in traces[0]["ev"][0].items()}], publishes=sum(1 for t in traces for e in t["ev"] if e["e"] == "publish"),
               stores=sum(1 for t in traces for e in t["ev"] if e["e"] == "store"), stores_replacing_an_earlier_one=restores,
               databases=len(traces), notifications_posted=posts, **stats)
    return core.Outcome(level="model_checking", coverage=cov, violations=viols, assumptions=[
        "the HTTP post (_post_webpush) is stubbed and records the subscription id; VAPID key setup is bypassed",
        "preferences and subscriptions are stored and queried through the real WebPushRepository on in-memory sqlite; the trace "
        "spec rebuilds the stored preferences from the recorded store calls (the last store of a user wins)"])
