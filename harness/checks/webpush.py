"""C33: push notification recipients.  WebPush.tla (laws of the entitlement relation, TLC over a small universe) and
WebPushTrace.tla, which recomputes WebPushDef!Recipients for every recorded call of the real
WebPushPublisher.publish_message working on the real WebPushRepository (sqlite) and compares it with the subscriptions that
reached the HTTP post (stubbed)."""
from __future__ import annotations

import asyncio
import itertools
import random

from .. import core, tlc
from ..aggdriver import AggWorld

ROLES = ["r1", "r2", "r3"]
USERS = ["u1", "u2", "u3", "None"]
UNITS = ["e1", "e2", "e10"]          # e1 is a prefix of e10: membership must not be a substring test
SCOPES = {"access": "PROCESS_UNITS_I_HAVE_ACCESS_TO", "contributed": "PROCESS_UNITS_WITH_RUNS_IVE_CONTRIBUTED_TO",
          "specific": "SPECIFIC_PROCESS_UNITS"}
TOPICS = ["run_start", "run_stop", "run_pause", "block_start", "notification_cmd", "watch_triggered", "new_contributor",
          "method_error", "network_errors"]


def _publisher():
    from openpectus.aggregator.webpush_publisher import WebPushPublisher
    pub = object.__new__(WebPushPublisher)          # no VAPID key files, no network
    pub.webpush_keys_path = ""
    pub.wp = object()
    pub.app_server_key = "k"
    pub.posted = []

    async def post(subscription, repo, notification):
        pub.posted.append(int(subscription.id))
    pub._post_webpush = post
    return pub


def _case(world: AggWorld, rnd: random.Random, cid: str, forced=None):
    """one database content + several publishes"""
    import openpectus.aggregator.models as Mdl
    from openpectus.aggregator.data import database
    from openpectus.aggregator.data.repository import WebPushRepository
    from webpush import WebPushSubscription
    from webpush.types import WebPushKeys, AnyHttpUrl
    world.fresh_db()
    prefs = []
    with database.create_scope():
        repo = WebPushRepository(database.scoped_session())
        for u in USERS:
            if rnd.random() < 0.2:
                continue
            p = {"user": u, "roles": sorted(rnd.sample(ROLES, rnd.randint(0, 2))), "scope": rnd.choice(list(SCOPES)),
                 "topics": sorted(rnd.sample(TOPICS, rnd.randint(0, 4))), "units": sorted(rnd.sample(UNITS, rnd.randint(0, 2)))}
            if forced:
                p.update(forced.get(u, {}))
            prefs.append(p)
            repo.store_notifications_preferences(Mdl.WebPushNotificationPreferences(
                user_id=u, user_roles=set(p["roles"]), scope=Mdl.NotificationScope(SCOPES[p["scope"]].lower()),
                topics=set(Mdl.NotificationTopic(t) for t in p["topics"]), process_units=list(p["units"])))
        for p in prefs:
            for d in range(rnd.randint(0, 3)):
                repo.store_subscription(WebPushSubscription(endpoint=AnyHttpUrl(f"https://push.invalid/{p['user']}/{d}"),
                                                            keys=WebPushKeys(auth="a", p256dh="p")), p["user"])
    with database.create_scope():
        import openpectus.aggregator.data.models as DMdl
        from sqlalchemy import select
        subs = [{"id": int(s.id), "user": str(s.user_id)} for s in database.scoped_session().scalars(select(DMdl.WebPushSubscription)).all()]
    pub = _publisher()
    ev = []
    for k in range(6):
        unit = rnd.choice(UNITS)
        ed = Mdl.EngineData(engine_id=unit, computer_name="c", uod_name="u", uod_author_name="", uod_author_email="",
                            uod_filename="", location="", engine_version="", hardware_str="", required_roles=set(),
                            data_log_interval_seconds=1.0) if False else None
        ed = _engine_data(unit)
        ed.required_roles = set(rnd.sample(ROLES, rnd.choice([0, 0, 1, 2])))
        contributors = rnd.sample([u for u in USERS if u != "None"], rnd.randint(0, 2))
        ed.contributors = {Mdl.Contributor(id=c, name=c.upper()) for c in contributors}
        topic = rnd.choice(TOPICS + ["new_contributor"] * 3)
        about = rnd.choice(contributors) if topic == "new_contributor" and contributors else ""
        note = Mdl.WebPushNotification(title="t", body="b", data=Mdl.WebPushData(process_unit_id=unit, contributor_id=about or None))
        pub.posted, exc = [], "none"
        try:
            asyncio.run(pub.publish_message(note, Mdl.NotificationTopic(topic), ed))
        except Exception as ex:
            exc = type(ex).__name__ + ": " + str(ex)[:80]
        ev.append({"e": "publish", "topic": topic, "unit": unit, "required": sorted(ed.required_roles), "contributors": sorted(contributors),
                   "about": about, "prefs": prefs, "subs": subs, "posted": list(pub.posted), "exc": exc,
                   "scopeOfFirstMissing": _first_missing_scope(prefs, subs, pub.posted, topic, unit, ed.required_roles, contributors, about)})
    return {"id": cid, "ev": ev}


def _engine_data(unit):
    import inspect
    import openpectus.aggregator.models as Mdl
    sig = inspect.signature(Mdl.EngineData.__init__)
    kw = {}
    for name, par in sig.parameters.items():
        if name == "self":
            continue
        if name == "engine_id":
            kw[name] = unit
        elif name == "required_roles":
            kw[name] = set()
        elif name == "data_log_interval_seconds":
            kw[name] = 1.0
        elif par.default is inspect.Parameter.empty:
            kw[name] = ""
    return Mdl.EngineData(**kw)


def _first_missing_scope(prefs, subs, posted, topic, unit, required, contributors, about):
    """only a label for the clause site (which scope the first missing subscription's user has); the verdict is TLC's"""
    by_user = {p["user"]: p for p in prefs}
    for s in subs:
        p = by_user.get(s["user"])
        if p is None or s["id"] in posted or topic not in p["topics"]:
            continue
        if required and not (set(required) & set(p["roles"])):
            continue
        if topic == "new_contributor" and about and s["user"] == about:
            continue
        ok = p["scope"] == "access" or (p["scope"] == "contributed" and s["user"] in contributors) or \
            (p["scope"] == "specific" and unit in p["units"])
        if ok:
            return p["scope"]
    return ""


def run(ctx: core.Ctx) -> core.Outcome:
    core.setup_repo_imports()
    res = tlc.run_tlc("WebPush", "WebPush.cfg", workers=12, timeout=1500)
    if not res.ok:
        raise core.MachineryFailure(f"design spec WebPush violates {res.violated}")
    rnd = random.Random(ctx.seed)
    world = AggWorld()
    n = 400 if ctx.quick else 4000
    traces = []
    # directed: every scope x (access yes/no) x (topic selected yes/no) for u1, two devices
    k = 0
    for scope, roles, topics in itertools.product(SCOPES, ([], ["r1"], ["r2", "r3"]), ([], ["run_start"], ["new_contributor", "run_stop"])):
        traces.append(_case(world, rnd, f"dir-{k}", forced={"u1": {"scope": scope, "roles": roles, "topics": topics}}))
        k += 1
    for i in range(n):
        traces.append(_case(world, rnd, f"rnd-{i}"))
    verdicts, stats = core.validate_traces("WebPushTrace", traces)
    viols = []
    by_id = {t["id"]: t for t in traces}
    for tid, vs in verdicts.items():
        for clause, line in vs:
            ev = by_id[tid]["ev"][line - 1]
            viols.append(core.Violation(key=clause, case=tid, detail=str({k: v for k, v in ev.items()})[:600], replay={"event": ev}))
    posts = sum(len(e["posted"]) for t in traces for e in t["ev"])
    cov = dict(states=res.distinct, transitions=res.generated, design_spec="WebPush", traces_validated_against_impl=len(traces),
               samples=[{k: v for k, v in traces[0]["ev"][0].items()}], publishes=sum(len(t["ev"]) for t in traces),
               databases=len(traces), notifications_posted=posts, **stats)
    return core.Outcome(level="model_checking", coverage=cov, violations=viols, assumptions=[
        "the HTTP post (_post_webpush) is stubbed and records the subscription id; VAPID key setup is bypassed",
        "preferences and subscriptions are stored and queried through the real WebPushRepository on in-memory sqlite"])
