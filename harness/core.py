"""Framework core: context, outcome, trace validation through TLC, evidence and verdict handling."""
from __future__ import annotations

import concurrent.futures as cf
import json
import os
import re
import sys
import time
from dataclasses import dataclass, field
from pathlib import Path

from . import tlaval, tlc

VERIF = Path(__file__).resolve().parent.parent
REPO = Path(os.environ.get("VERIF_REPO", "/repo"))
GUARD = "OPENPECTUS_VERIF"


def setup_repo_imports():
    """Import openpectus from the *current working tree* of /repo with the hooks enabled."""
    os.environ[GUARD] = "1"
    os.environ.setdefault("PYTHONHASHSEED", "0")
    if str(REPO) not in sys.path:
        sys.path.insert(0, str(REPO))
    import logging
    logging.disable(logging.CRITICAL)


class MachineryFailure(Exception):
    """exit code 2: the check could not be carried out (never a verdict)"""


@dataclass
class Violation:
    key: str                 # '<clause>@<site>' : the identity used by known_findings.json
    case: str                # id of the failing case / trace
    detail: str = ""
    replay: dict | None = None   # everything needed to reproduce (inputs, schedule, events)


@dataclass
class Outcome:
    level: str
    coverage: dict
    assumptions: list = field(default_factory=list)
    violations: list = field(default_factory=list)     # list[Violation]
    notes: list = field(default_factory=list)


@dataclass
class Ctx:
    prop: str
    tier: str
    seed: int
    replay: str | None = None
    selftest: bool = False

    @property
    def quick(self) -> bool:
        return self.tier == "quick"


# ----------------------------------------------------------------------------------------------
# trace validation

def _printed_values(out: str, tag: str):
    """Yield the TLA+ values TLC printed with PrintT(<<tag, ...>>); long values are pretty-printed over several
    lines, so collect until the brackets balance."""
    lines = out.splitlines()
    i = 0
    start = re.compile(r'^<<\s*"' + re.escape(tag) + '"')
    while i < len(lines):
        if start.match(lines[i]):
            buf = lines[i]
            while buf.count("<<") != buf.count(">>") or buf.count("{") != buf.count("}") or buf.count("[") != buf.count("]"):
                i += 1
                buf += "\n" + lines[i]
            yield tlaval.parse(buf)
        i += 1


def _no_nulls(x):
    """TLC's Json module cannot read null: a None that the implementation produced where a value was expected must reach the
    trace spec as a (wrong) value, not stop the validator"""
    if x is None:
        return "<null>"
    if isinstance(x, dict):
        return {k: _no_nulls(v) for k, v in x.items()}
    if isinstance(x, (list, tuple)):
        return [_no_nulls(v) for v in x]
    return x


def _validate_one(args):
    module, cfg, traces, timeout, idx = args
    scratch = tlc.new_scratch("tr")
    try:
        f = scratch / f"traces{idx}.json"
        with open(f, "w") as fh:
            json.dump(_no_nulls(traces), fh)
        res = tlc.run_tlc(module, cfg, workers=1, timeout=timeout, env={"TRACE_FILE": str(f)}, deadlock=False)
        verdicts = {}
        for v in _printed_values(res.output, "@R"):
            # a trace spec may branch on unlogged variables: the trace is explained by its best branch
            cand = (v[2], [(p[0], p[1]) for p in v[3]])
            if v[1] not in verdicts or len(cand[1]) < len(verdicts[v[1]][1]):
                verdicts[v[1]] = cand
        witnesses = {}
        for v in _printed_values(res.output, "@W"):       # vacuity guard: antecedents that held in the trace
            for w in v[2]:
                witnesses.setdefault(str(w), set()).add(v[1])
        return dict(ok=res.ok, violated=res.violated, verdicts=verdicts, generated=res.generated,
                    distinct=res.distinct, error_state=res.error_state, witnesses={k: len(x) for k, x in witnesses.items()},
                    tail="\n".join(ln for ln in res.output.splitlines() if "@R" not in ln and "@W" not in ln)[-3000:], wall=res.wall_s)
    finally:
        tlc.rm_scratch(scratch)


def _event_chunks(traces, max_events):
    cur, n = [], 0
    for t in traces:
        if cur and n + len(t["ev"]) > max_events:
            yield cur
            cur, n = [], 0
        cur.append(t)
        n += len(t["ev"])
    if cur:
        yield cur


def validate_traces(module: str, traces: list[dict], *, cfg: str | None = None, max_events: int = 120000,
                    timeout: int = 1800, jobs: int = 2, batch: int | None = None):
    """Validate `traces` (each a dict with 'id' and 'ev') with specs/<module>.tla.

    One single-worker TLC run per ~max_events events (a JVM start costs a second and parallel JVMs contend badly
    in this sandbox).  Returns (verdicts, stats): verdicts[id] = list of (clause, line) that failed (empty = accepted).
    Raises MachineryFailure when a trace was not consumed completely or TLC itself failed."""
    if not traces:
        return {}, dict(trace_states=0, trace_transitions=0, batches=0)
    ids = [t["id"] for t in traces]
    if len(set(ids)) != len(ids):
        raise MachineryFailure("duplicate trace ids")
    jobs_args = [(module, cfg, chunk, timeout, i) for i, chunk in enumerate(_event_chunks(traces, max_events))]
    verdicts = {}
    gen = dist = 0
    wit: dict[str, int] = {}
    with cf.ThreadPoolExecutor(max_workers=jobs) as ex:
        for chunk_args, r in zip(jobs_args, ex.map(_validate_one, jobs_args)):
            if not r["ok"]:
                raise MachineryFailure(f"trace spec {module} reported {r['violated']} (a trace spec is total; this is a "
                                       f"defect of the machinery):\n{r['tail']}")
            gen += r["generated"]
            dist += r["distinct"]
            for k, n in r.get("witnesses", {}).items():
                wit[k] = wit.get(k, 0) + n
            for t in chunk_args[2]:
                got = r["verdicts"].get(t["id"])
                if got is None:
                    raise MachineryFailure(f"trace {t['id']} got no verdict from {module}:\n{r['tail']}")
                consumed, viols = got
                if consumed != len(t["ev"]):
                    raise MachineryFailure(f"trace {t['id']}: consumed {consumed} of {len(t['ev'])} events")
                verdicts[t["id"]] = viols
    stats = dict(trace_states=dist, trace_transitions=gen, batches=len(jobs_args))
    if wit:
        stats["antecedents_exercised_in_traces"] = dict(sorted(wit.items()))
    return verdicts, stats


# ----------------------------------------------------------------------------------------------
# corpus cache: several properties are decided on one corpus; running their checks in a row must not redo it, while any edit
# under /repo, /verif/specs or /verif/harness invalidates it

def tree_hash(deps=None) -> str:
    """deps: None = repo + all specs + harness; else repo + the listed files/directories under /verif"""
    import hashlib
    h = hashlib.sha256()
    roots = [REPO / "openpectus"] + ([VERIF / "specs", VERIF / "harness"] if deps is None else [VERIF / d for d in deps])
    for root in roots:
        if root.is_file():
            h.update(str(root).encode())
            h.update(root.read_bytes())
            continue
        for f in sorted(root.rglob("*")):
            if f.suffix in (".py", ".tla", ".cfg", ".json", ".rst") and f.is_file() and "frontend" not in f.parts \
                    and "__pycache__" not in f.parts:
                h.update(str(f.relative_to(root)).encode())
                h.update(f.read_bytes())
    kf = VERIF / "known_findings.json"
    return h.hexdigest()[:24]


def cached(name: str, ctx: "Ctx", compute, deps=None):
    """compute() -> JSON-able result; cached under .cache/<name>-<tier>-<seed>-<tree hash>.json"""
    import pickle
    cdir = VERIF / ".cache"
    cdir.mkdir(exist_ok=True)
    key = cdir / f"{name}-{ctx.tier}-{ctx.seed}-{tree_hash(deps)}.pkl"
    if key.exists() and not os.environ.get("VERIF_NOCACHE"):
        try:
            with open(key, "rb") as fh:
                return pickle.load(fh), True
        except Exception:
            pass
    res = compute()
    for old in cdir.glob(f"{name}-{ctx.tier}-{ctx.seed}-*.pkl"):
        old.unlink(missing_ok=True)
    tmp = key.with_suffix(".tmp%d" % os.getpid())
    with open(tmp, "wb") as fh:
        pickle.dump(res, fh)
    tmp.replace(key)
    return res, False


# ----------------------------------------------------------------------------------------------
# known findings

def load_findings():
    p = VERIF / "known_findings.json"
    if not p.exists():
        return {"findings": [], "fixed": []}
    return json.loads(p.read_text())


def prop_of(key: str) -> str:
    m = re.match(r"(C\d+)\.", key)
    return m.group(1) if m else ""


# ----------------------------------------------------------------------------------------------
# evidence + verdict

def finish(ctx: Ctx, out: Outcome, t0: float) -> int:
    """Write the evidence file, print KNOWN-FINDING / VIOLATION lines, return the exit code."""
    findings = load_findings()
    known = {f["key"]: f for f in findings.get("findings", []) if f["property"] == ctx.prop}
    mine = [v for v in out.violations if prop_of(v.key) in ("", ctx.prop)]
    others = [v for v in out.violations if prop_of(v.key) not in ("", ctx.prop)]
    new, used = {}, {}
    for v in mine:
        if v.key in known:
            used.setdefault(v.key, []).append(v)
        else:
            new.setdefault(v.key, []).append(v)
    rc = 0
    for key, vs in sorted(used.items()):
        print(f"KNOWN-FINDING: property={ctx.prop} {key} {known[key]['what']} ({len(vs)} cases, e.g. {vs[0].case})")
    rdir = VERIF / "replays" / ctx.prop
    shown = 0
    for key, vs in sorted(new.items()):
        rc = 1
        shown += 1
        if shown > 60:
            continue
        rdir.mkdir(parents=True, exist_ok=True)
        slug = re.sub(r"[^A-Za-z0-9_.@-]+", "_", key)[:80]
        path = rdir / f"{slug}.json"
        v = vs[0]
        path.write_text(json.dumps({"property": ctx.prop, "key": key, "case": v.case, "detail": v.detail,
                                    "cases": len(vs), "replay": v.replay}, indent=1, default=str))
        if shown > 8:          # replay written, line not printed (the summary line below names the clause)
            continue
        print(f"VIOLATION property={ctx.prop} replay={path}")
        print(f"  clause {key}: {v.detail[:600]} (case {v.case}; {len(vs)} failing cases)")
    if shown > 8:
        print(f"  ... and {shown - 8} more failing clauses: {sorted(new)[8:40]}")
    if others:
        keys = sorted({v.key for v in others})
        print(f"note: clauses of other properties failed in the same corpus (reported by their own checks): {keys}")
    cov = dict(out.coverage)
    cov.setdefault("samples", [])
    ev = {
        "property_id": ctx.prop, "tier": ctx.tier, "seed": ctx.seed, "level": out.level, "coverage": cov,
        "assumptions": out.assumptions, "wall_s": round(time.time() - t0, 2),
        "violations": sum(len(v) for v in new.values()),
        "known_findings_seen": sorted(used), "notes": out.notes,
    }
    edir = VERIF / "evidence"
    edir.mkdir(exist_ok=True)
    (edir / f"{ctx.prop}.json").write_text(json.dumps(ev, indent=1, default=str))
    if rc == 0:
        print(f"OK property={ctx.prop} tier={ctx.tier} level={out.level} wall={ev['wall_s']}s "
              + " ".join(f"{k}={v}" for k, v in cov.items() if isinstance(v, (int, float, bool))))
    return rc
