"""Read TLC's `-dump dot,actionlabels` state graph and derive behaviours (action-label paths) from it.

`edge_cover_paths` returns paths from an initial state such that every edge of the reachable graph lies on at
least one path; each path is a list of (action_name, args) with the node ids alongside.
"""
from __future__ import annotations

import random
import re
from collections import defaultdict, deque
from pathlib import Path

from . import tlaval

_NODE = re.compile(r'^(-?\d+) \[label="((?:[^"\\]|\\.)*)"(.*)\]$')
_EDGE = re.compile(r'^(-?\d+) -> (-?\d+) \[label="((?:[^"\\]|\\.)*)"')


def _unescape(s: str) -> str:
    out = []
    i = 0
    while i < len(s):
        c = s[i]
        if c == "\\" and i + 1 < len(s):
            n = s[i + 1]
            if n == "n":
                out.append("\n")
            elif n == "\\":
                out.append("\\")
            elif n == '"':
                out.append('"')
            else:
                out.append(n)
            i += 2
        else:
            out.append(c)
            i += 1
    return "".join(out)


class Graph:
    def __init__(self):
        self.labels: dict[int, str] = {}
        self.init: list[int] = []
        self.succ: dict[int, list[tuple[str, int]]] = defaultdict(list)
        self.nedges = 0

    @classmethod
    def load(cls, path: Path) -> "Graph":
        g = cls()
        seen_edges = set()
        with open(path) as f:
            for line in f:
                line = line.rstrip("\n").rstrip(";")
                m = _EDGE.match(line)
                if m:
                    a, b, lab = int(m.group(1)), int(m.group(2)), _unescape(m.group(3))
                    key = (a, b, lab)
                    if key in seen_edges:
                        continue
                    seen_edges.add(key)
                    g.succ[a].append((lab, b))
                    g.nedges += 1
                    continue
                m = _NODE.match(line)
                if m:
                    nid = int(m.group(1))
                    if nid not in g.labels:
                        g.labels[nid] = m.group(2)
                    if "style = filled" in m.group(3):
                        if nid not in g.init:
                            g.init.append(nid)
        return g

    def state(self, nid: int) -> dict:
        return tlaval.parse_state(_unescape(self.labels[nid]))

    def var(self, nid: int, name: str):
        """value of one variable in a node (parsed lazily, cached)"""
        cache = self.__dict__.setdefault("_varcache", {})
        key = (nid, name)
        if key not in cache:
            lab = _unescape(self.labels[nid])
            if not lab.startswith("/\\"):
                lab = "/\\ " + lab          # a single-variable state is printed without the conjunction bullet
            m = re.search(r"(?:^|\n)/\\ " + re.escape(name) + r" = (.*?)(?=\n/\\ |\Z)", lab, re.S)
            if not m:
                raise KeyError(name)
            cache[key] = tlaval.parse(m.group(1))
        return cache[key]

    def edge_cover_paths(self, max_len: int = 64, seed: int = 0, skip_self_loops: bool = False):
        """Greedy: walk from an init state preferring uncovered out-edges; when stuck at a node with no uncovered
        out-edge, jump (via BFS over the graph) to the nearest node that still has one, as long as the path stays
        within max_len; otherwise start a new path."""
        rnd = random.Random(seed)
        uncovered: dict[int, list[tuple[str, int]]] = {}
        total = 0
        for n, es in self.succ.items():
            lst = [e for e in es if not (skip_self_loops and e[1] == n)]
            rnd.shuffle(lst)
            if lst:
                uncovered[n] = lst
                total += len(lst)
        paths = []

        def nearest_uncovered(start: int, budget: int):
            if start in uncovered:
                return []
            q = deque([start])
            prev = {start: None}
            while q:
                u = q.popleft()
                d = 0
                x = u
                while prev[x] is not None:
                    x = prev[x][0]
                    d += 1
                if d >= budget - 1:
                    continue
                for lab, v in self.succ.get(u, ()):
                    if v in prev:
                        continue
                    prev[v] = (u, lab)
                    if v in uncovered:
                        hops = []
                        x = v
                        while prev[x] is not None:
                            hops.append((prev[x][1], x))
                            x = prev[x][0]
                        hops.reverse()
                        return hops
                    q.append(v)
            return None

        for i0 in self.init:
            while uncovered:
                if nearest_uncovered(i0, max_len) is None:
                    break            # nothing left to cover from this initial state
                path = []
                cur = i0
                nodes = [cur]
                while len(path) < max_len:
                    if cur in uncovered:
                        lab, nxt = uncovered[cur].pop()
                        if not uncovered[cur]:
                            del uncovered[cur]
                        path.append(lab)
                        nodes.append(nxt)
                        cur = nxt
                        continue
                    hops = nearest_uncovered(cur, max_len - len(path))
                    if not hops:
                        break
                    for lab, nxt in hops:
                        path.append(lab)
                        nodes.append(nxt)
                        cur = nxt
                if not path:
                    break
                paths.append((path, nodes))
        return paths, total
