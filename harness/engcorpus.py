"""The engine corpus: recorded runs of the real engine shared by the engine-side properties (C01-C16, C36, C41).

Families of runs:
  rs-*   every edge of the RunState.tla state graph (user command schedules interleaved with ticks) on a small method
  rnd-*  random control / inject / cancel / force schedules over a pool of methods (timed Pause/Hold, failing instructions,
         output-writing commands, blocks, watches, alarms, macros)
  prog-* enumerated small programs (harness.gen.programs) under several tag trajectories
Each run is a dict {id, family, method, steps, events}.  Projections turn runs into traces for the trace specs."""
from __future__ import annotations

import random

from . import core, dotgraph, tlaval, tlc
from .engdriver import EngineRun

M0 = ["Base: s", "Mark: A", "Wait: 0.3s", "Mark: B", ""]

METHOD_POOL = [
    ["Base: s", "Mark: A", "Pause: 0.3s", "Mark: B", "Hold: 0.2s", "Mark: C", ""],
    ["Base: s", "Set1: 3", "Mark: A", "Pause", "Mark: never", ""],
    ["Base: s", "Loop1", "Mark: A", "Wait: 0.5s", "Mark: B", ""],
    ["Base: s", "Set1: 2", "Wait: 0.2s", "Fail", "Mark: after", ""],
    ["Base: s", "Mark: A", "Nonsense: 1", "Mark: B", ""],
    ["Base: s", "Set1: 4", "Mark: A", "Restart", ""],
    ["Base: s", "Mark: A", "Long", "Stop", ""],
    ["Base: s", "Block: B1", "    Mark: in", "    0.3 End block", "Mark: out", "Hold: 0.3s", "Mark: D", ""],
    ["Base: s", "Watch: In > 2 L/h", "    Set1: 6", "    Mark: W", "Mark: A", "Wait: 1s", "Mark: B", ""],
    ["Base: s", "Alarm: In > 2 L/h", "    Mark: AL", "    Wait: 0.2s", "Forever", "Mark: X", ""],
    ["Base: s", "Macro: M", "    Mark: m1", "    Set1: 8", "Call macro: M", "Call macro: M", "Mark: E", ""],
    ["Base: s", "OvA", "OvB", "Long", "Long", "Mark: Z", ""],
    ["Base: s", "OvC", "OvA", "Wait: 0.2s", "OvB", "OvC", "Mark: Z", ""],
    ["Base: s", "Simulate: In = 5 L/h", "Mark: S", "Wait: 0.3s", "Simulate off: In", "Mark: T", ""],
    ["Base: min", "0.01 Mark: late", "Set2: 3 L/h", ""],
    # internal commands with arguments they do not take, or malformed ones: the instruction fails, the engine stays responsive
    ["Base: s", "Mark: A", "Stop: now", "Mark: B", ""],
    ["Base: s", "Set1: 3", "Pause: 1x", "Mark: A", "Wait: 0.5s", ""],
    ["Base: s", "Mark: A", "Restart: 1", "Mark: B", ""],
    # a simulated value that equals the real one
    ["Base: s", "Simulate: Out2 = 7", "Mark: S", "Wait: 0.5s", "Mark: T", ""],
]

SWEEP_METHODS = [
    ["Base: s", "Set1: 3", "Stop: now", "Mark: B", "Wait: 0.5s", ""],
    ["Base: s", "Simulate: Out2 = 7", "Long", "Wait: 1s", "Mark: T", ""],
    ["Base: s", "Set1: 2", "Pause: 1s", "Mark: B", "Wait: 0.5s", "Mark: C", ""],
    ["Base: s", "Set1: 3", "Mark: A", "Nonsense: 1", "Mark: B", ""],
    ["Base: s", "Set1: 4", "Long", "Hold: 0.5s", "Loop1", "Wait: 0.5s", ""],
    ["Base: s", "Set1: 5", "Watch: In < 1 L/h", "    Pause: 0.5s", "    Long", "Wait: 1s", "Fail", ""],
]

INJECT_SWEEP_METHODS = [
    ["Base: s", "Block: B1", "    Watch: In < 1 L/h", "        End block", "    Wait: 1s", "    Mark: inB", "Mark: after", "Wait: 1s",
     "Mark: last", ""],
    ["Base: s", "Block: B1", "    Block: B2", "        Alarm: In < 1 L/h", "            End blocks", "        Wait: 0.8s", "    Mark: inB1",
     "Wait: 1s", "Mark: last", ""],
    ["Base: s", "Watch: In < 1 L/h", "    Wait: 0.5s", "    Mark: w", "Block: B1", "    0.5 End block", "Wait: 1s", ""],
]

CANCEL_FORCE_SWEEP_METHODS = [
    ["Base: s", "Pause: 0.5s", "Mark: A", "Hold: 0.5s", "Mark: B", "Wait: 0.5s", "Mark: C", ""],
    ["Base: s", "Watch: In > 2 L/h", "    Mark: W", "Long", "0.8 Mark: T", "Wait: 0.3s", "Mark: E", ""],
    ["Base: s", "Alarm: In < 1 L/h", "    Mark: AL", "    Wait: 0.3s", "Block: B1", "    0.5 Short", "    End block", "Mark: X", ""],
]

EDIT_SWEEP_METHOD = ["Base: s", "Macro: M", "    Mark: a", "    Wait: 0.5s", "    Mark: b", "Call macro: M", "Wait: 0.3s", "Call macro: M",
                     "Mark: end", ""]

VOLUME_METHODS = [
    ["Base: L", "Wait: 0.5s", "Block: O", "    Block: I", "        1 End block", "    2.5 Mark: X", "    4 End block", "1 Mark: done", ""],
    ["Base: L", "1 Mark: a", "Block: B", "    0.5 Mark: b", "    1.5 Mark: c", "    End block", "Base: s", "0.2 Mark: d", ""],
    ["Base: L", "Block: O", "    1 Mark: o1", "    Block: I", "        0.5 Mark: i1", "        End block", "    1.5 Mark: o2",
     "    Block: J", "        1 End block", "    3 End block", ""],
]

CONTROLS = ["Start", "Stop", "Pause", "Unpause", "Hold", "Unhold", "Restart"]
SNIPPETS = ["Mark: inj", "Set1: 1", "Set1: 2", "Short", "Long", "Wait: 0.2s", "Block: IB\n    Mark: ib\n    End block", "Fail",
            "Pause: 0.2s", "Hold: 0.2s", "Stop: 2 min", "Hold: 1x"]


def _with_reports(run_id, steps):
    """tag reports after random numbers of ticks (own random stream, so the schedules themselves stay as they are)"""
    import zlib
    rnd = random.Random(zlib.crc32(run_id.encode()))
    out, gap = [], rnd.randint(1, 4)
    for st in steps:
        st = dict(st)
        gap -= 1
        if gap <= 0:
            st["report"] = "snapshot" if rnd.random() < 0.1 else "delta"
            gap = rnd.randint(1, 5)
        out.append(st)
    return out


def _run(run_id, family, method, steps):
    tagtrace = family in ("prog", "rnd")
    if tagtrace:
        steps = _with_reports(run_id, steps)
    r = EngineRun(method, tagtrace=tagtrace)
    try:
        r.run_schedule(steps)
    finally:
        r.close()
    return {"id": run_id, "family": family, "method": method, "steps": steps, "events": r.events}


def runstate_paths(ctx):
    scratch = tlc.new_scratch("rs")
    try:
        res = tlc.dump_graph("RunState", "RunStateReplay.cfg", scratch / "g.dot", timeout=900, workers=1)
        if not res.ok:
            raise core.MachineryFailure(f"design spec RunState violates {res.violated}")
        g = dotgraph.Graph.load(scratch / "g.dot")
    finally:
        tlc.rm_scratch(scratch)
    paths, total = g.edge_cover_paths(max_len=12, seed=ctx.seed)
    schedules = []
    for _labels, nodes in paths:
        steps, pending = [], []
        for n in nodes[1:]:
            name, args, _res = g.var(n, "last")
            name = str(name)
            if name == "UserCmd":
                pending.append({"k": "control", "name": str(args[0])})
            elif name == "SetOutput":
                pending.append({"k": "inject", "text": "Set1: " + ("1" if str(args[0]) == "v1" else "2")})
            else:
                steps.append({"req": pending})
                pending = []
        if pending:
            steps.append({"req": pending})
        steps += [{}, {}]
        schedules.append(steps)
    return schedules, dict(states=res.distinct, transitions=res.generated, edges=total)


def random_schedule(rnd, n):
    steps = [{"req": [{"k": "control", "name": "Start"}]}] if rnd.random() < 0.9 else []
    level = 0.0
    for _ in range(n):
        req = []
        k = rnd.random()
        if k < 0.22:
            req.append({"k": "control", "name": rnd.choice(CONTROLS)})
            if rnd.random() < 0.15:
                req.append({"k": "control", "name": rnd.choice(CONTROLS)})
        elif k < 0.30:
            req.append({"k": "inject", "text": rnd.choice(SNIPPETS)})
        elif k < 0.36:
            req.append({"k": rnd.choice(["cancel", "force"]), "item": rnd.randint(1, 8)})
        if rnd.random() < 0.15:
            level = rnd.choice([0.0, 2.0, 3.0, 1.0])
        steps.append({"req": req, "in": {"In": level}})
    return steps


def program_schedules(rnd, n_ticks, variant, fixed=None):
    """Start + n ticks with the input trajectory `traj`; variant decides what else happens"""
    from .gen import programs
    traj = rnd.choice(programs.trajectories(n_ticks, rnd)) if fixed is None else programs.trajectories(n_ticks, rnd)[fixed]
    steps = [{"req": [{"k": "control", "name": "Start"}], "in": {"In": traj[0]}}]
    for k in range(1, n_ticks):
        req = []
        r = rnd.random()
        if variant == "pausehold" and r < 0.12:
            req.append({"k": "control", "name": rnd.choice(["Pause", "Unpause", "Hold", "Unhold"])})
        elif variant == "cancelforce" and r < 0.2:
            req.append({"k": rnd.choice(["cancel", "force", "force"]), "item": rnd.randint(1, 10)})
        elif variant == "inject" and r < 0.1:
            req.append({"k": "inject", "text": rnd.choice(SNIPPETS[:7])})
        elif variant == "edit" and r < 0.12:
            req.append({"k": "editop", "op": rnd.choice(["append", "append", "change-last", "change-first", "insert-blank", "append-in-macro"]),
                        "text": rnd.choice(["Mark: ed", "Short", "Wait: 0.2s", "Set1: 9"])})
        elif variant == "stoprestart" and r < 0.06:
            req.append({"k": "control", "name": rnd.choice(["Stop", "Restart", "Start"])})
        steps.append({"req": req, "in": {"In": traj[k]}})
    return steps


def build(ctx: core.Ctx):
    rnd = random.Random(ctx.seed)
    runs = []
    sched, design = runstate_paths(ctx)
    for i, steps in enumerate(sched):
        runs.append(_run(f"rs-{i}", "rs", M0, steps))
    # Stop / Restart swept over every tick of a few fixed methods (timed pause, error pause, long command, hold): deterministic
    n = 0
    for method in SWEEP_METHODS:
        for name in ("Stop", "Restart"):
            for at in range(1, 22 if ctx.quick else 30):
                steps = [{"req": [{"k": "control", "name": "Start"}]}] + [{} for _ in range(at)] + \
                    [{"req": [{"k": "control", "name": name}]}] + [{} for _ in range(8)]
                runs.append(_run(f"swp-{n}", "swp", method, steps))
                n += 1
    # code injected at every tick of methods whose block is ended from an interrupt while the main program is still inside it
    n = 0
    for method in INJECT_SWEEP_METHODS:
        for text in ("Mark: inj", "Short", "Block: IB\n    Mark: ib\n    End block"):
            for at in range(1, 19 if ctx.quick else 26):
                steps = [{"req": [{"k": "control", "name": "Start"}], "in": {"In": 0.0}}] + [{} for _ in range(at)] + \
                    [{"req": [{"k": "inject", "text": text}]}] + [{} for _ in range(14)]
                runs.append(dict(_run(f"swi-{n}", "prog", method, steps), variant="inject"))
                n += 1
    # cancel / force of every run-log item at every tick of methods with a timed Pause and Hold, a pending Watch, a re-arming
    # Alarm, a Wait, a threshold and a long UOD command (the random variants rarely hit the short windows of Pause and Hold)
    n = 0
    for method in CANCEL_FORCE_SWEEP_METHODS:
        for kind in ("cancel", "force"):
            for item in range(2, 10 if ctx.quick else 13):
                for at in range(2, 16 if ctx.quick else 22):
                    steps = [{"req": [{"k": "control", "name": "Start"}], "in": {"In": 0.0}}] + [{} for _ in range(at)] + \
                        [{"req": [{"k": kind, "item": item}]}] + [{} for _ in range(12)]
                    runs.append(dict(_run(f"cfs-{n}", "prog", method, steps), variant="cancelforce"))
                    n += 1
    # live edits at every tick of a method that calls a macro twice: a new line at the end of the method, inside the macro body,
    # a changed last line
    n = 0
    for op in ("append-in-macro", "append", "change-last"):
        for at in range(1, 24 if ctx.quick else 30):
            steps = [{"req": [{"k": "control", "name": "Start"}], "in": {"In": 0.0}}] + [{} for _ in range(at)] + \
                [{"req": [{"k": "editop", "op": op, "text": "Mark: ed"}]}] + [{} for _ in range(16)]
            runs.append(dict(_run(f"swe-{n}", "prog", EDIT_SWEEP_METHOD, steps), variant="edit"))
            n += 1
    # volume base: thresholds against the volume accumulated in the innermost block, while the totalizer runs (In >= 3),
    # stands still, or does both in turn
    n = 0
    for method in VOLUME_METHODS:
        for pattern in ((3.0,), (3.0, 3.0, 0.0), (0.0, 3.0), (3.0, 0.0, 0.0, 3.0, 3.0)):
            steps = [{"req": [{"k": "control", "name": "Start"}], "in": {"In": pattern[0]}}] + \
                [{"in": {"In": pattern[k % len(pattern)]}} for k in range(1, 60)]
            runs.append(dict(_run(f"vol-{n}", "prog", method, steps), variant="plain"))
            n += 1
    # a timed Hold (Pause) cancelled while the user has also paused (held) the run: the cancelled command's own state must end
    n = 0
    for method, other, undo in ((["Base: s", "Hold: 1.5s", "Mark: A", "Wait: 0.5s", "Mark: B", ""], "Pause", "Unpause"),
                                (["Base: s", "Pause: 1.5s", "Mark: A", "Wait: 0.5s", "Mark: B", ""], "Hold", "Unhold")):
        for item in range(2, 6):
            for at in range(3, 9):
                steps = [{"req": [{"k": "control", "name": "Start"}]}] + [{} for _ in range(at)] + \
                    [{"req": [{"k": "control", "name": other}]}, {}, {"req": [{"k": "cancel", "item": item}]}, {}, {},
                     {"req": [{"k": "control", "name": undo}]}] + [{} for _ in range(12)]
                runs.append(dict(_run(f"cfp-{n}", "prog", method, steps), variant="cancelforce"))
                n += 1
    nrnd = 600 if ctx.quick else 3000
    for i in range(nrnd):
        method = rnd.choice(METHOD_POOL)
        runs.append(_run(f"rnd-{i}", "rnd", method, random_schedule(rnd, rnd.randint(15, 45))))
    # UOD commands issued by the user (process-value buttons): same command manager, but no method node behind the request
    urnd = random.Random(ctx.seed * 31 + 5)
    for i in range(150 if ctx.quick else 1000):
        method = urnd.choice([m for m in METHOD_POOL if not any(x.strip().startswith(("Restart", "Stop")) for x in m)])
        steps = [{"req": [{"k": "control", "name": "Start"}]}]
        for _ in range(urnd.randint(12, 35)):
            req, k = [], urnd.random()
            if k < 0.3:
                req.append({"k": "control", "name": urnd.choice(["Short", "Long", "Long", "OvA", "OvB", "OvC", "Forever"])})
                if urnd.random() < 0.25:
                    req.append({"k": "control", "name": urnd.choice(["Long", "OvA", "OvB", "OvC", "Forever"])})
            elif k < 0.36:
                req.append({"k": "control", "name": urnd.choice(["Pause", "Unpause", "Hold", "Unhold"])})
            elif k < 0.40 and i % 2 == 1:
                # every other run also ends / restarts the run around the user's commands
                req.append({"k": "control", "name": urnd.choice(["Stop", "Restart", "Restart", "Start"])})
            elif k < 0.42:
                req.append({"k": urnd.choice(["cancel", "force"]), "item": urnd.randint(1, 8)})
            steps.append({"req": req})
        runs.append(_run(f"usr-{i}", "usr", method, steps))
    from .gen import programs
    # The set of programs does not depend on VERIF_SEED (the seed drives schedules, trajectories and request points):
    # quick = a fixed sample, thorough = a larger fixed sample of the same generators.
    progs = programs.CURATED * (2 if ctx.quick else 4) + programs.enumerated(ctx.quick, 1) + \
        programs.random_programs(300 if ctx.quick else 1500, 1)
    variants = ["plain", "plain", "pausehold", "cancelforce", "inject", "edit", "stoprestart"]
    for i, method in enumerate(progs):
        for j in range(1 if ctx.quick else 2):
            variant = variants[(i + j) % len(variants)]
            runs.append(dict(_run(f"prog-{i}-{j}", "prog", method, program_schedules(rnd, 40, variant)), variant=variant))
    for i, method in enumerate(programs.CURATED):          # the curated shapes also with the two deterministic trajectories
        for k, fixed in enumerate((-2, -1)):
            runs.append(dict(_run(f"prog-cur-{i}-{k}", "prog", method, program_schedules(rnd, 50, "plain", fixed=fixed)), variant="plain"))
    return {"runs": runs, "design": {"RunState": design}}


def corpus(ctx: core.Ctx):
    c, hit = core.cached("engcorpus", ctx, lambda: build(ctx),
                         deps=["harness/engcorpus.py", "harness/engdriver.py", "harness/dotgraph.py", "harness/tlaval.py",
                               "harness/gen", "specs/RunState.tla", "specs/RunStateReplay.cfg"])
    c["from_cache"] = hit
    return c


# ------------------------------------------------------------------------------------------------------------
# projections

WRITERS = {"Set1", "Loop1"}
SCOPE_CLS = {"BlockNode", "WatchNode", "AlarmNode", "MacroNode", "ProgramNode", "EndBlockNode", "EndBlocksNode", "CallMacroNode",
             "InjectedNode"}


def project_runstate(run):
    """events for RunStateTrace.tla"""
    out = []
    failed, w1, writer, scope, mrestart, pstate = [], [], False, False, False, "Stopped"
    edited, failed_any, stoplike = False, False, 0
    for e in run["events"]:
        k = e["e"]
        if k == "tickBegin":
            pstate = e["state"]          # the state when the tick begins, i.e. after the requests made since the last tick
        elif k == "req" and e["k"] == "control" and e["name"] in CONTROLS:
            out.append({"e": "req", "t": e["t"], "name": e["name"], "state": e["state"], "paused": e["paused"],
                        "holding": e["holding"], "res": "ok" if e["res"] == "ok" else "rejected"})
        elif k == "req" and e["k"] == "edit" and e["res"] == "merge_method":
            edited = True
        elif k == "flag":
            if e["f"] == "failed" and e["new"] == "True" and e["n"].startswith("L"):     # method lines (injected code has no line)
                failed.append(e["n"])
            if e["f"] == "failed" and e["new"] == "True":
                failed_any = True                      # any instruction: method line, injected code, user command
            if e["cls"] in SCOPE_CLS and e["f"] in ("started", "completed", "activated", "lock_acquired", "block_ended"):
                scope = True
            if e["f"] == "started" and e["new"] == "True" and e["ins"] == "Restart":
                mrestart = True
            if e["f"] == "started" and e["new"] == "True" and e["ins"] in ("Stop", "Restart") and e["cls"] == "EngineCommandNode":
                stoplike = 8                 # a Stop / Restart line is being executed (its command runs in the next ticks)
        elif k == "write":
            if "Out1" in e["vals"]:
                w1.append(e["vals"]["Out1"])
        elif k == "exec" and e["name"] in WRITERS:
            writer = True
        elif k == "tickEnd":
            out.append({"e": "tickEnd", "t": e["t"], "exc": "none" if e["exc"] == "none" else "raised", "state": e["state"],
                        "started": e["started"], "paused": e["paused"], "holding": e["holding"], "runId": e["runId"],
                        "status": e["status"], "err": e["err"], "ctl": e["ctl"], "ptu": e["ptu"], "rtu": e["rtu"],
                        "btu": e["btu"], "stu": e["stu"], "block": e["block"], "out1": e["out"]["Out1"], "hw1": e["hw"]["Out1"],
                        "w1": w1, "failedNodes": failed, "mfailed": e["mstate"].get("failed", []), "scopeChange": scope,
                        "writerExec": writer, "methodRestart": mrestart, "pstate": pstate, "edited": edited,
                        "stopping": bool(e.get("stopping", False)), "failedAny": failed_any,
                        "stopLine": stoplike > 0})
            if not e["started"]:
                stoplike = 0                 # (a latch for the rest of the run: the run may be paused or held for any time in between)
            if not e["started"]:
                edited = False
            failed, w1, writer, scope, mrestart, failed_any = [], [], False, False, False, False
    return {"id": run["id"], "ev": out}


def project_tags(run):
    """events for TagReportTrace.tla"""
    return {"id": run["id"], "ev": [e for e in run["events"] if e["e"] in ("tags", "report")]}


def project_commands(run):
    """events for CommandsTrace.tla"""
    out = []
    items, nodes, started_nodes = {}, {}, set()
    body_started, proceeded, first_line, run_id = [], set(), "", 0
    inited = set()
    cancelled_nodes = set()
    ended_blocks = set()
    resets, item_resets = {}, {}          # how often a line was reset; the count when a run-log item was created for it
    forced_nodes = set()                  # lines with an accepted force
    reset_now = set()                     # lines reset since the last tick end (their alarm / macro body runs again)

    def ancestors(nid):
        out, cur, seen = [], nodes.get(nid, {}).get("parent", ""), set()
        while cur and cur in nodes and cur not in seen:
            seen.add(cur)
            out.append(cur)
            cur = nodes[cur].get("parent", "")
        return out

    def orphan_prone(nid):
        """under a Watch/Alarm that is itself nested in an Alarm or Macro body (recorded finding: its interrupt outlives the reset)"""
        chain = [nid] + ancestors(nid)
        for i, a in enumerate(chain):
            if nodes.get(a, {}).get("cls") in ("WatchNode", "AlarmNode") and \
                    any(nodes.get(b, {}).get("cls") in ("AlarmNode", "MacroNode") for b in chain[i + 1:]):
                return True
        return False

    for e in run["events"]:
        k = e["e"]
        if k == "init":
            inited.add(e["inst"])
        if k == "flag" and e["f"] == "block_ended":
            (ended_blocks.add if e["new"] == "True" else ended_blocks.discard)(e["n"])
        if k == "flag" and e["f"] == "cancelled":
            (cancelled_nodes.add if e["new"] == "True" else cancelled_nodes.discard)(e["n"])
        if k == "prog":
            nodes = {n["id"]: n for n in e["nodes"]}
        elif k == "item":
            items[e["id"]] = e
            item_resets[e["id"]] = resets.get(e["node"], 0)
        elif k in ("init", "exec", "finalize"):
            node = items.get(e["inst"], {}).get("node", "")
            out.append({"e": k, "name": e["name"], "inst": e["inst"], "t": e["t"],
                        "site": "@under-interrupt-nested-in-repeated-body" if orphan_prone(node) else ""})
        elif k == "flag":
            n = e["n"]
            if e["f"] == "started" and e["new"] == "True":
                started_nodes.add(n)
                if n.startswith("L") and not first_line:
                    first_line = n
                par = nodes.get(n, {}).get("parent", "")
                if nodes.get(par, {}).get("cls") == "WatchNode":
                    body_started.append(par)
                    proceeded.add(par)
                if nodes.get(n, {}).get("thr"):
                    proceeded.add(n)
            if e["f"] == "started" and e["new"] == "False":
                started_nodes.discard(n)
                if e["old"] == "True" and e["ctx"] != "edit":
                    resets[n] = resets.get(n, 0) + 1
                    reset_now.add(n)
            if e["f"] == "activated" and e["new"] == "True":
                proceeded.add(n)
            if e["f"] == "completed" and e["new"] == "True" and e["ins"] == "Wait":
                proceeded.add(n)
        elif k == "req" and e["k"] == "control" and e["name"] in ("Pause", "Hold") and e["res"] == "ok":
            out.append({"e": "ctl", "name": e["name"], "t": e["t"]})
        elif k == "req" and e["k"] in ("cancel", "force"):
            it = items.get(e["item"], {})
            node = it.get("node", "")
            cls, name = it.get("cls", ""), it.get("name", "")
            nd = nodes.get(node, {})
            if cls == "UodCommandNode":
                kind = "uod"
            elif cls == "WatchNode":
                kind = "watch-after-cancel" if node in cancelled_nodes else ("watch" if node not in proceeded else "watch-after-activation")
            elif cls == "AlarmNode":
                kind = "alarm-after-cancel" if node in cancelled_nodes else ("alarm" if node not in proceeded else "alarm-after-activation")
            elif name.startswith("Pause"):
                kind = "pause"
            elif name.startswith("Hold"):
                kind = "hold"
            elif name.startswith("Wait"):
                kind = "wait"
            elif nd.get("thr") and node not in started_nodes:
                kind = "threshold"
            elif not it:
                kind = "unknown-item"
            else:
                kind = "other"
            if kind in ("threshold", "wait", "watch", "alarm") and (set(ancestors(node)) & ended_blocks):
                kind += "-in-ended-block"            # its block has ended: nothing is left that could proceed
            if e["k"] == "force" and e["res"] == "ok":
                forced_nodes.add(node)
            out.append({"e": "req", "k": e["k"], "item": e["item"], "node": node, "offered": bool(e.get("offered")),
                        "res": "ok" if e["res"] == "ok" else "rejected", "unchanged": bool(e.get("unchanged", True)),
                        "kind": kind, "cls": cls, "target": e["item"], "runId": run_id, "t": e["t"],
                        "stale": item_resets.get(e["item"], 0) < resets.get(node, 0)})
        elif k == "runStopped":
            open_ = [ln["name"] for ln in e["lines"]
                     if items.get(ln["id"], {}).get("cls") == "UodCommandNode" and ln["id"] in inited     # the command itself started
                     and not (ln["end"] or ln["cancelled"] or ln["failed"])]
            forced_open = any(ln["forced"] for ln in e["lines"] if ln["name"] in open_)
            out.append({"e": "runStopped", "open": open_, "exc": "none" if e["exc"] == "none" else "raised",
                        "site": "forced-command" if forced_open else "command"})
        elif k == "tickEnd":
            if e["runId"] != run_id:
                proceeded = set(p_ for p_ in proceeded if False)
            run_id = e["runId"]
            out.append({"e": "tickEnd", "t": e["t"], "started": e["started"], "paused": e["paused"], "holding": e["holding"],
                        "runId": e["runId"], "err": e["err"], "inst": e["inst"], "simulated": e["simulated"],
                        "bodyStarted": sorted(set(body_started)), "proceededEver": sorted(proceeded), "firstLine": first_line,
                        # forced lines whose block has ended since: nothing in an ended block proceeds (C04 / C05)
                        "forcedDead": sorted(n for n in forced_nodes if set(ancestors(n)) & ended_blocks),
                        "resetNow": sorted(reset_now)})
            reset_now = set()
            body_started, first_line = [], ""
    return {"id": run["id"], "ev": out}
