"""Drive a real Engine deterministically: virtual time, recording hardware, instrumented UOD, interpreter-flag recorder.

One `EngineRun` = one engine + one schedule.  A schedule is a list of steps; each step is a list of requests applied
*between* two ticks followed by one `engine.tick(t, dt)`:

    {"dt": 0.1, "in": {"In": 3.0}, "req": [{"k": "control", "name": "Pause"}, {"k": "inject", "text": "Mark: x"}, ...]}

Request kinds: control(name) | inject(text) | edit(lines) | cancel(item) | force(item) | hwfail(read|write)
(item = index into the list of run-log ids seen so far).  After every tick the observable state is projected into a
`tickEnd` event; the micro-events of the interpreter (node flag changes), of the UOD commands (init/exec/finalize) and of the
hardware (write batches) are recorded in program order with the tick they happened in.
"""
from __future__ import annotations

import re
from fractions import Fraction

EPOCH = 1000.0

NODE_FLAGS = ["started", "completed", "failed", "_cancelled", "_forced", "activated", "lock_acquired", "block_ended",
              "interrupt_registered", "run_count", "run_started_count", "run_completed_count"]

_installed = {"done": False, "sink": None}


def install_node_recorder():
    """Data descriptors on ast.Node for the interpretation flags: every mutation is reported to the current sink in the
    order the interpreter performs it.  Installed once per process; add-only and harness-side (no repository change)."""
    import openpectus.lang.model.ast as ast
    if _installed["done"]:
        return
    missing = []
    for flag in NODE_FLAGS:
        def make(flag):
            key = "_vf_" + flag

            def getter(self):
                try:
                    return self.__dict__[key]
                except KeyError:
                    raise AttributeError(flag)

            def setter(self, value):
                first = key not in self.__dict__
                old = self.__dict__.get(key, None)
                self.__dict__[key] = value
                sink = _installed["sink"]
                if sink is not None and not first and (old != value or flag in ("started", "completed")):
                    sink(self, flag, old, value)             # the first assignment is the initialisation
            return property(getter, setter)
        setattr(ast.Node, flag, make(flag))
    probe = ast.MarkNode()
    for flag in ("started", "completed", "failed", "_cancelled", "_forced"):
        if not hasattr(probe, flag):
            missing.append(flag)
    if missing:
        raise RuntimeError(f"interpretation flags not found on ast.Node: {missing}")
    _installed["done"] = True


def install_interpreter_probes():
    """Observation-only wrappers (harness side, no repository change) around three interpreter methods: the per-tick entry
    point, the threshold test and the condition test.  They report to the run that is currently recording."""
    from openpectus.lang.exec.pinterpreter import PInterpreter
    if getattr(PInterpreter, "_vf_probed", False):
        return
    o_tick, o_thr, o_act = PInterpreter.tick, PInterpreter._is_awaiting_threshold, PInterpreter._try_activate_node

    def tick(self, tick_time, tick_number):
        run = _installed.get("run")
        if run is not None:
            run._ev("itick", phase="begin")
        try:
            return o_tick(self, tick_time, tick_number)
        finally:
            if run is not None:
                run._ev("itick", phase="end")

    def thr(self, node):
        run = _installed.get("run")
        reached = run._reached(node) if run is not None else True
        res = o_thr(self, node)
        if run is not None and node.threshold is not None:
            run._ev("thr", n=str(node.id), oid=id(node) % 1000003, awaiting=bool(res), reached=bool(reached),
                    forced=bool(node.forced), completed=bool(node.completed))
        return res

    def act(self, node):
        run = _installed.get("run")
        cn = run._cond_now(node) if run is not None else None
        if run is not None:
            run._ev("tryact", n=str(node.id), oid=id(node) % 1000003, condNow="unknown" if cn is None else str(bool(cn)),
                    forced=bool(node.forced), cancelled=bool(node.cancelled))
        return o_act(self, node)
    PInterpreter.tick, PInterpreter._is_awaiting_threshold, PInterpreter._try_activate_node = tick, thr, act
    PInterpreter._vf_probed = True

    from openpectus.lang.exec.tracking import Tracking
    o_add = Tracking._add_record_state

    def add(self, instance_id, record, state, command=None):
        run = _installed.get("run")
        if run is not None and self.enabled:
            run._ev("rec", n=str(record.node_id), state=str(state), inst=run._inst(instance_id, record))
        return o_add(self, instance_id, record, state, command=command)
    Tracking._add_record_state = add


class _VirtualTime:
    """stands in for the `time` module inside the tag modules: every time stamp a tag takes is the engine's virtual time"""
    def __getattr__(self, name):
        import time as _t
        return getattr(_t, name)

    @staticmethod
    def time():
        run = _installed.get("run")
        return run.t if run is not None else EPOCH


def install_virtual_time():
    import openpectus.lang.exec.tags as tags
    import openpectus.lang.exec.tags_impl as tags_impl
    import openpectus.engine.engine_message_builder as emb
    for m in (tags, tags_impl, emb):
        if not isinstance(getattr(m, "time", None), _VirtualTime):
            m.time = _VirtualTime()


def build_uod(log, hw):
    """The instrumented unit operation: every init/exec/finalize call is logged with (name, instance id, iteration)."""
    from openpectus.engine.hardware import RegisterDirection
    from openpectus.lang.exec.tags import Tag, TagDirection
    from openpectus.lang.exec.tags_impl import ReadingTag
    from openpectus.lang.exec.uod import UodBuilder
    from openpectus.lang.exec.regex import RegexNumber

    def mk(name, complete_after=None, fail_at=None, writes=None):
        def init_fn(cmd):
            log("init", name, cmd.instance_id, -1)

        def exec_fn(cmd, **kv):
            it = cmd.get_iteration_count()
            log("exec", name, cmd.instance_id, it)
            if fail_at is not None and it == fail_at:
                raise ValueError(f"{name} fails at iteration {it}")
            if writes is not None:
                tag, val = writes
                v = float(kv.get("number")) if val == "arg" else (float(it + 1) if val == "iter" else val)
                cmd.context.tags[tag].set_value(v, _VirtualTime.time())       # like the demo UOD: set_value(v, time())
            if complete_after is not None and it + 1 >= complete_after:
                cmd.set_complete()

        def fin_fn(cmd):
            log("finalize", name, cmd.instance_id, cmd.get_iteration_count())
        return dict(exec_fn=exec_fn, init_fn=init_fn, finalize_fn=fin_fn)

    b = (UodBuilder()
         .with_instrument("VerifUod").with_author("v", "v@example.invalid").with_filename(__file__)
         .with_hardware(hw).with_location("lab")
         .with_hardware_register("In", RegisterDirection.Read)
         .with_hardware_register("Vol", RegisterDirection.Read)
         .with_hardware_register("Out1", RegisterDirection.Write, safe_value=0.0)
         .with_hardware_register("Out2", RegisterDirection.Write)
         .with_tag(ReadingTag("In", "L/h"))
         .with_tag(ReadingTag("Vol", "L"))               # a totalizer: rises while the flow In is high
         .with_tag(Tag("Out1", value=5.0, unit=None, direction=TagDirection.Output))
         .with_tag(Tag("Out2", value=7.0, unit=None, direction=TagDirection.Output))
         .with_tag(Tag("Level", value=0.0, unit="L", direction=TagDirection.NA))
         .with_command(name="Short", arg_parse_fn=None, **mk("Short", complete_after=1))
         .with_command(name="Long", arg_parse_fn=None, **mk("Long", complete_after=4))
         .with_command(name="Forever", arg_parse_fn=None, **mk("Forever"))
         .with_command(name="OvA", arg_parse_fn=None, **mk("OvA", complete_after=5))
         .with_command(name="OvB", arg_parse_fn=None, **mk("OvB", complete_after=5))
         .with_command(name="OvC", arg_parse_fn=None, **mk("OvC", complete_after=5))
         .with_command(name="Fail", arg_parse_fn=None, **mk("Fail", fail_at=1))
         .with_command(name="Loop1", arg_parse_fn=None, **mk("Loop1", writes=("Out1", "iter")))
         .with_command_regex_arguments(name="Set1", arg_parse_regex=RegexNumber(units=None),
                                       **mk("Set1", complete_after=1, writes=("Out1", "arg")))
         .with_command_regex_arguments(name="Set2", arg_parse_regex=RegexNumber(units=["L/h", "L/min"]),
                                       **mk("Set2", complete_after=1, writes=("Out2", "arg")))
         .with_command_overlap(["OvA", "OvB"])
         .with_command_overlap(["OvB", "OvC"])           # OvB is in two overlap declarations; OvA and OvC do not overlap
         .with_accumulated_volume("Vol"))
    uod = b.build()
    return uod


def make_hw():
    from openpectus.engine.hardware import HardwareLayerBase, HardwareLayerException

    class RecHW(HardwareLayerBase):
        def __init__(self):
            super().__init__()
            self.mem = {"Out1": 9.9, "Out2": 9.9}       # deliberately not the safe value
            self.inputs = {"In": 0.0, "Vol": 0.0}
            self.writes = []                               # (values dict) per write_batch since last drain
            self.fail_read = False
            self.fail_write = False

        def read(self, r):
            if self.fail_read:
                raise HardwareLayerException("scripted read failure")
            return self.inputs.get(r.name, 0.0)

        def read_batch(self, registers):
            if self.fail_read:
                raise HardwareLayerException("scripted read failure")
            return [self.inputs.get(r.name, 0.0) for r in registers]

        def write(self, value, r):
            self.write_batch([value], [r])

        def write_batch(self, values, registers):
            if self.fail_write:
                raise HardwareLayerException("scripted write failure")
            rec = {}
            for v, r in zip(values, registers):
                self.mem[r.name] = v
                rec[r.name] = v
            self.writes.append(rec)
    return RecHW()


def num(v):
    """value token for traces: numbers as exact decimal strings, others as str"""
    if v is None:
        return "none"
    if isinstance(v, bool):
        return str(v)
    if isinstance(v, (int, float)):
        return repr(float(v))
    return str(v)


def micro(x) -> int:
    """seconds (float tag value) -> integer microseconds"""
    try:
        return int(round(float(x) * 1_000_000))
    except Exception:
        return -1


def milli(x) -> int:
    """seconds -> integer milliseconds, exact for the decimal literal of x"""
    return int(round(Fraction(str(x)) * 1000))


class EngineRun:
    def __init__(self, method_lines: list[str] | None = None, interval: float = 0.1, tagtrace: bool = False):
        import openpectus.protocol.models as Mdl
        from openpectus.engine.engine import Engine, EngineTiming
        from openpectus.lang.exec.clock import WallClock
        from openpectus.lang.exec.timer import NullTimer
        install_node_recorder()
        install_interpreter_probes()
        install_virtual_time()
        self.tagtrace = tagtrace
        self._tagvals: dict[str, str] = {}
        self.t = EPOCH
        _installed["run"] = self
        self.Mdl = Mdl
        self.events: list[dict] = []
        self.tick_no = -1
        self.t = EPOCH
        self.hw = make_hw()
        self.engine = None
        self._vol_blocks, self._vol_run, self._vol_last, self._was_started = [], 0.0, 0.0, False
        self.uod = build_uod(self._uod_log, self.hw)
        self.uod.hwl.connect()
        self.engine = Engine(self.uod, EngineTiming(WallClock(), NullTimer(), interval, 1.0))
        from openpectus.engine.engine_message_builder import EngineMessageBuilder
        self.mb = EngineMessageBuilder(self.engine, "", False)
        self.node_line: dict[str, int] = {}
        self.run_ids: list[str] = []
        self.item_ids: list[str] = []
        self.raised = None
        self.stop_msgs = []
        self.in_request = ""          # kind of the request being applied (flag events emitted meanwhile carry it)
        _installed["sink"] = self._node_sink
        self._install_stop_listener()
        self.engine.run(skip_timer_start=True)
        self._drain_writes(phase="engine-start")
        if method_lines is not None:
            self.set_method(method_lines)

    def _install_stop_listener(self):
        """what EngineRunner.on_stop does: build the run-stopped message (its run log is what the aggregator stores)"""
        from openpectus.lang.exec.events import EventListener
        outer = self

        class L(EventListener):
            def on_stop(self):
                rid = self.run_id
                super().on_stop()
                try:
                    msg = outer.mb.create_run_stopped_msg(rid or "")
                    lines = [{"id": outer._inst(ln.id), "name": str(ln.command_name), "end": ln.end is not None,
                              "cancelled": bool(ln.cancelled), "forced": bool(ln.forced), "failed": bool(getattr(ln, "failed", False)),
                              "cancellable": bool(ln.cancellable), "forcible": bool(ln.forcible)} for ln in msg.runlog.lines]
                    outer._ev("runStopped", lines=lines, exc="none")
                except Exception as ex:
                    outer._ev("runStopped", lines=[], exc=type(ex).__name__ + ": " + str(ex)[:100])
        self._stop_listener = L()
        self.engine.emitter.add_listener(self._stop_listener)

    # ---- recording ----------------------------------------------------------------------------------------
    def _ev(self, e, **kw):
        kw["e"] = e
        kw["t"] = self.tick_no
        self.events.append(kw)

    def _uod_log(self, what, name, instance_id, it):
        self._ev(what, name=name, inst=self._inst(instance_id), it=it)

    def _inst(self, instance_id, rec=None):
        if instance_id not in self.item_ids:
            self.item_ids.append(instance_id)
            idx = len(self.item_ids)
            node, cls, name = "", "", ""
            try:
                if rec is None:
                    rec = self.engine.tracking.get_record_by_instance_id(instance_id)
                if rec is not None:
                    node, cls, name = str(rec.node_id), str(rec.node_class_name), str(rec.name)
            except Exception:
                pass
            self.events.append({"e": "item", "t": self.tick_no, "id": idx, "node": node, "cls": cls, "name": name})
        return self.item_ids.index(instance_id) + 1

    def _clock(self):
        """the scope clock a threshold is compared with, read at this very moment: (block tag, block time, scope time, base)"""
        from openpectus.lang.exec.tags import SystemTagName as S
        st = self.engine._system_tags
        try:
            return (st[S.BLOCK].get_value(), float(st[S.BLOCK_TIME].get_value()), float(st[S.SCOPE_TIME].get_value()),
                    str(st[S.BASE].get_value()))
        except Exception:
            return (None, 0.0, 0.0, "s")

    def _reached(self, node):
        thr = getattr(node, "threshold", None)
        if thr is None:
            return True
        blk, bt, stime, base = self._clock()
        factor = {"s": 1, "min": 60, "h": 3600}.get(base)
        if base == "L":
            # volume base: the clock is the volume accumulated since the innermost active block started (since the run started
            # outside blocks). Computed here from the totalizer readings alone, not from the Block Volume / Accumulated Volume
            # tags: the accumulators are updated after the interpreter in every tick, so what they show now is the totalizer as of
            # the previous tick end minus the totalizer when the block (the run) started.
            v0 = self._vol_blocks[-1][1] if (blk not in (None, "") and self._vol_blocks) else self._vol_run
            return Fraction(str(self._vol_last)) - Fraction(str(v0)) >= Fraction(str(thr))
        if factor is None:
            return True
        clock = bt if blk not in (None, "") else stime
        return Fraction(str(clock)) >= Fraction(str(thr)) * factor      # the clock value as every observer reads it

    def _cond_now(self, node):
        """exact evaluation of a Watch/Alarm condition on the current tag value (same-unit conditions only)"""
        try:
            c = node.tag_operator_value
            tag = self.engine.tags[c.tag_name]
            a, b = Fraction(str(tag.get_value())), Fraction(str(c.tag_value))
            if (c.tag_unit or None) != (tag.unit or None):
                return None
            return {"<": a < b, "<=": a <= b, ">": a > b, ">=": a >= b, "=": a == b, "==": a == b, "!=": a != b}[c.op]
        except Exception:
            return None

    def _node_sink(self, node, flag, old, new):
        extra = {}
        if type(node).__name__ == "BlockNode" and self.engine is not None:
            if flag.lstrip("_") == "lock_acquired" and new and not old:
                self._vol_blocks.append((str(node.id), float(self.uod.tags["Vol"].get_value())))
            elif flag.lstrip("_") == "block_ended" and new and not old:
                self._vol_blocks = [b for b in self._vol_blocks if b[0] != str(node.id)]
        if flag == "started" and new:
            extra["reached"] = bool(self._reached(node))
        if flag == "activated" and new:
            cn = self._cond_now(node)
            extra["condNow"] = "unknown" if cn is None else str(bool(cn))
        self._ev("flag", **extra, ctx=self.in_request, oid=id(node) % 1000003, n=str(node.id), cls=type(node).__name__, ins=str(getattr(node, "instruction_name", "") or ""),
                 f=flag.lstrip("_"), old=num(old), new=num(new))

    def _drain_writes(self, phase):
        for w in self.hw.writes:
            self._ev("write", vals={k: num(v) for k, v in w.items()}, phase=phase)
        self.hw.writes.clear()

    # ---- requests -----------------------------------------------------------------------------------------
    def set_method(self, lines: list[str], version: int = 0):
        ids = [(f"L{i + 1}", c) for i, c in enumerate(lines)]
        return self.set_method_ids(ids, version)

    def edit_op(self, op: str, text: str = "Mark: edited"):
        """live-edit relative to the current method: append (before the final blank line) | change-last (the last
        instruction line) | change-first (the first instruction line after Base) | insert-blank"""
        cur = list(getattr(self, "cur_lines", []))
        if not cur:
            return "rejected"
        self.next_line = getattr(self, "next_line", len(cur)) + 1
        new_id = f"L{self.next_line}"
        idx_instr = [i for i, (_, c) in enumerate(cur) if c.strip() and not c.strip().startswith("#")]
        if op == "append":
            pos = len(cur) - 1 if cur[-1][1].strip() == "" else len(cur)
            cur.insert(pos, (new_id, text))
        elif op == "change-last" and idx_instr:
            i = idx_instr[-1]
            cur[i] = (cur[i][0], " " * (len(cur[i][1]) - len(cur[i][1].lstrip())) + text)
        elif op == "change-first" and len(idx_instr) > 1:
            i = idx_instr[1]
            cur[i] = (cur[i][0], " " * (len(cur[i][1]) - len(cur[i][1].lstrip())) + text)
        elif op == "insert-blank":
            cur.insert(len(cur) - 1, (new_id, ""))
        elif op == "append-in-macro":
            # a new last line in the body of the first macro definition
            heads = [i for i, (_, c) in enumerate(cur) if c.strip().startswith("Macro:")]
            if not heads:
                return "rejected"
            h = heads[0]
            ind = len(cur[h][1]) - len(cur[h][1].lstrip())
            end = h + 1
            while end < len(cur) and (not cur[end][1].strip() or len(cur[end][1]) - len(cur[end][1].lstrip()) > ind):
                end += 1
            while end > h + 1 and not cur[end - 1][1].strip():
                end -= 1
            cur.insert(end, (new_id, " " * (ind + 4) + text))
            return self.set_method_ids(cur, 0, op=op, in_macro=cur[h][0])
        return self.set_method_ids(cur, 0, op=op)

    def set_method_ids(self, id_lines: list[tuple[str, str]], version: int = 0, op: str = "set", in_macro: str = ""):
        m = self.Mdl.Method(lines=[self.Mdl.MethodLine(id=i, content=c) for i, c in id_lines], version=version)
        old = dict(getattr(self, "cur_lines", []))
        changed = sorted(i for i, c in id_lines if i in old and old[i] != c)
        removed = sorted(i for i in old if i not in dict(id_lines))
        res = self._request("edit", lambda: self.engine.set_method(m), lines=[list(x) for x in id_lines], op=op,
                            changed=changed, removed=removed, inMacro=in_macro)
        if res != "rejected":
            self.cur_lines = list(id_lines)
            self.next_line = max(getattr(self, "next_line", 0), len(id_lines))
        return res

    def _request(self, kind, fn, **kw):
        res, exc = "ok", "none"
        pre = self._digest() if kind in ("cancel", "force", "edit", "inject") else None
        if kind in ("edit", "inject"):
            kw["preM"] = self.snapshot()["mstate"]
            kw["preF"] = self.node_flags()
        self.in_request = kind
        try:
            r = fn()
            if isinstance(r, str):
                res = r
        except Exception as ex:
            res, exc = "rejected", type(ex).__name__
        finally:
            self.in_request = ""
        if pre is not None:
            kw["unchanged"] = (pre == self._digest())
        if kind in ("edit", "inject"):
            kw["postM"] = self.snapshot()["mstate"]
            kw["postF"] = self.node_flags()
        self._ev("req", k=kind, res=res, exc=exc, **kw)
        if self.tagtrace and self.tick_no >= 0:
            self._log_tag_changes()          # a request can change tags between two ticks (engine time = the last tick)
        if kind == "edit":
            self._log_program()
        if kind == "inject" and res == "ok":
            self._log_injected()
        return res

    def node_flags(self):
        """interpretation flags of every node of the tree the interpreter is actually executing (plus injected subtrees)"""
        out = {k: [] for k in ("started", "completed", "failed", "activated", "locked", "ended", "registered", "cancelled", "forced",
                               "macroStarted")}
        try:
            interp = self.engine.interpreter
            nodes = list(interp._program.get_all_nodes())
            for intr in interp.interrupts:
                if type(intr.node).__name__ == "InjectedNode":
                    nodes.append(intr.node)
                    nodes.extend(intr.node.get_child_nodes(recursive=True))
            for n in nodes:
                i = str(n.id)
                for key, attr in (("started", "started"), ("completed", "completed"), ("failed", "failed"), ("activated", "activated"),
                                  ("locked", "lock_acquired"), ("ended", "block_ended"), ("registered", "interrupt_registered"),
                                  ("cancelled", "_cancelled"), ("forced", "_forced")):
                    if getattr(n, attr, False):
                        out[key].append(i)
                if getattr(n, "run_started_count", 0) > 0:
                    out["macroStarted"].append(i)
        except Exception as ex:
            out["exc"] = type(ex).__name__
        return {k: (sorted(set(v)) if isinstance(v, list) else v) for k, v in out.items()}

    def _log_injected(self):
        """the subtree of the code injected last (an InjectedNode registered as an interrupt)"""
        try:
            nodes = []
            for intr in self.engine.interpreter.interrupts:
                n = intr.node
                if type(n).__name__ == "InjectedNode" and str(n.id) not in self.node_line:
                    self.node_line[str(n.id)] = 0
                    nodes.append({"id": str(n.id), "cls": "InjectedNode", "ins": "", "parent": "", "thr": False, "args": ""})
                    for c in n.get_child_nodes(recursive=True):
                        par = getattr(c, "parent", None)
                        nodes.append({"id": str(c.id), "cls": type(c).__name__, "ins": str(getattr(c, "instruction_name", "") or ""),
                                      "parent": str(par.id) if par is not None else str(n.id), "thr": c.threshold is not None,
                                      "args": str(getattr(c, "arguments", "") or ""),
                                      "thrv": None if c.threshold is None else float(c.threshold)})
            self._ev("injprog", nodes=nodes)
        except Exception as ex:
            self._ev("injprog", nodes=[], exc=type(ex).__name__)

    def _digest(self):
        """observable state that a rejected request must leave alone"""
        s = self.snapshot()
        return repr({k: s[k] for k in ("state", "started", "paused", "holding", "runId", "status", "out", "inst", "mstate")}) + \
            repr([(i["id"], i["state"], i["cancelled"], i["forced"]) for i in s["runlog"]])

    def _log_program(self):
        try:
            prog = self.engine.method_manager.program
            nodes = []
            for n in prog.get_all_nodes():
                par = getattr(n, "parent", None)
                nodes.append({"id": str(n.id), "cls": type(n).__name__, "ins": str(getattr(n, "instruction_name", "") or ""),
                              "parent": str(par.id) if par is not None else "", "thr": n.threshold is not None,
                              "thrv": None if n.threshold is None else float(n.threshold),
                              "line": int(n.position.line), "trail": bool(getattr(n, "has_only_trailing_whitespace", False)),
                              "name": str(getattr(n, "name", "") or ""),
                              "args": str(getattr(n, "arguments", "") or "")})
            self._ev("prog", nodes=nodes)
        except Exception as ex:
            self._ev("prog", nodes=[], exc=type(ex).__name__)

    def control(self, name):
        return self._request("control", lambda: self.engine.execute_control_command_from_user(name), name=name,
                             state=self.sys_state(), paused=self.engine._runstate_paused, holding=self.engine._runstate_holding)

    def inject(self, text):
        return self._request("inject", lambda: self.engine.inject_code(text), text=text)

    def cancel(self, item):
        iid = self.item_ids[item - 1] if 0 < item <= len(self.item_ids) else f"no-such-{item}"
        offered = self._offered(iid)
        return self._request("cancel", lambda: self.engine.cancel_instruction(iid), item=item, offered=offered["cancellable"])

    def force(self, item):
        iid = self.item_ids[item - 1] if 0 < item <= len(self.item_ids) else f"no-such-{item}"
        offered = self._offered(iid)
        return self._request("force", lambda: self.engine.force_instruction(iid), item=item, offered=offered["forcible"])

    def _offered(self, iid):
        try:
            for it in self.engine.tracking.get_runlog().items:
                if it.id == iid:
                    return {"cancellable": bool(it.cancellable), "forcible": bool(it.forcible)}
        except Exception:
            pass
        return {"cancellable": False, "forcible": False}

    def apply(self, req: dict):
        k = req["k"]
        if k == "control":
            return self.control(req["name"])
        if k == "inject":
            return self.inject(req["text"])
        if k == "edit":
            return self.set_method(req["lines"], req.get("version", 0))
        if k == "editop":
            return self.edit_op(req["op"], req.get("text", "Mark: edited"))
        if k == "cancel":
            return self.cancel(req["item"])
        if k == "force":
            return self.force(req["item"])
        if k == "hwfail":
            setattr(self.hw, "fail_" + req["what"], bool(req.get("on", True)))
            self._ev("req", k="hwfail", what=req["what"], on=bool(req.get("on", True)), res="ok", exc="none")
            return "ok"
        raise ValueError(k)

    # ---- ticking ------------------------------------------------------------------------------------------
    def sys_state(self):
        from openpectus.lang.exec.tags import SystemTagName
        return str(self.engine._system_tags[SystemTagName.SYSTEM_STATE].get_value())

    def tick(self, dt: float = 0.1, inputs: dict | None = None):
        self.tick_no += 1
        self.t = round(self.t + dt, 6)
        if inputs:
            self.hw.inputs.update(inputs)
        if self.hw.inputs.get("In", 0.0) >= 3.0:
            self.hw.inputs["Vol"] = self.hw.inputs.get("Vol", 0.0) + 0.5       # the totalizer stands still while the flow is low
        self._ev("tickBegin", ms=milli(self.t), dtms=milli(dt), state=self.sys_state())
        exc = "none"
        try:
            self.engine.tick(self.t, dt)
        except Exception as ex:      # C13: must never happen
            exc = type(ex).__name__ + ": " + str(ex)[:120]
            self.raised = exc
        self._drain_writes(phase="tick")
        vol_now = float(self.uod.tags["Vol"].get_value())
        if self.engine._runstate_started and not self._was_started:      # a run began in this tick: its accumulators start here
            self._vol_run, self._vol_blocks = vol_now, []
        self._was_started = bool(self.engine._runstate_started)
        self._vol_last = vol_now
        self._ev("tickEnd", exc=exc, **self.snapshot())
        if self.tagtrace:
            self._log_tag_changes()

    def _log_tag_changes(self):
        ch = []
        for tag in self.engine._iter_all_tags():
            v = num(tag.get_value()) + ("~sim" if getattr(tag, "simulated", False) else "")
            if self._tagvals.get(tag.name) != v:
                simflip = self._tagvals.get(tag.name, "").endswith("~sim") != v.endswith("~sim")
                self._tagvals[tag.name] = v
                ch.append({"name": str(tag.name), "val": v[:-4] if v.endswith("~sim") else v, "simflip": simflip})
        self._ev("tags", ms=milli(self.t) - milli(EPOCH), ch=ch)

    def report(self, snapshot=False):
        """what EngineReporter does: build a tags-updated message from the engine's update queue"""
        try:
            msg = self.mb.create_tag_updates_snapshot_msg() if snapshot else self.mb.create_tag_updates_msg(None)
            tags = [] if msg is None else [{"name": str(t.name), "val": num(t.value), "tt": int(round((t.tick_time - EPOCH) * 1000))}
                                           for t in msg.tags]
            self._ev("report", snapshot=bool(snapshot), ms=milli(self.t) - milli(EPOCH), n=len(list(self.engine._iter_all_tags())),
                     tags=tags, exc="none")
        except Exception as ex:
            self._ev("report", snapshot=bool(snapshot), ms=0, n=0, tags=[], exc=type(ex).__name__)

    def snapshot(self) -> dict:
        from openpectus.lang.exec.tags import SystemTagName as S
        e = self.engine
        st = e._system_tags
        rid = st[S.RUN_ID].get_value()
        if rid not in (None, "") and rid not in self.run_ids:
            self.run_ids.append(rid)
        try:
            ms = e.method_manager.get_method_state()
            mstate = {"started": sorted(ms.started_line_ids), "executed": sorted(ms.executed_line_ids),
                      "failed": sorted(ms.failed_line_ids), "injected": sorted(ms.injected_line_ids)}
        except Exception as ex:
            mstate = {"exc": type(ex).__name__}
        runlog, rl_exc = [], "none"
        try:
            for it in e.tracking.get_runlog().items:
                runlog.append({"id": self._inst(it.id), "name": str(it.name), "start": milli(it.start) if it.start else 0,
                               "end": -1 if it.end is None else milli(it.end), "state": str(it.state),
                               "cancellable": bool(it.cancellable), "forcible": bool(it.forcible),
                               "cancelled": bool(it.cancelled), "forced": bool(it.forced), "failed": bool(it.failed)})
        except Exception as ex:
            rl_exc = type(ex).__name__
        return {
            "state": str(st[S.SYSTEM_STATE].get_value()), "started": bool(e._runstate_started), "paused": bool(e._runstate_paused),
            "holding": bool(e._runstate_holding), "stopping": bool(e._runstate_stopping),
            "runId": 0 if rid in (None, "") else self.run_ids.index(rid) + 1,
            "status": str(st[S.METHOD_STATUS].get_value()), "err": e.has_error_state(),
            "ctl": self._ctl(),
            "ptu": micro(st[S.PROCESS_TIME].get_value()), "rtu": micro(st[S.RUN_TIME].get_value()),
            "btu": micro(st[S.BLOCK_TIME].get_value()), "stu": micro(st[S.SCOPE_TIME].get_value()),
            "pt": num(st[S.PROCESS_TIME].get_value()), "rt": num(st[S.RUN_TIME].get_value()),
            "bt": num(st[S.BLOCK_TIME].get_value()), "st": num(st[S.SCOPE_TIME].get_value()),
            "block": num(st[S.BLOCK].get_value()), "base": num(st[S.BASE].get_value()), "mark": num(st[S.MARK].get_value()),
            "out": {k: num(self.uod.tags[k].get_value()) for k in ("Out1", "Out2")},
            "inv": num(self.uod.tags["In"].get_value()),
            "hw": {k: num(v) for k, v in self.hw.mem.items()},
            "inst": sorted(self.uod.command_instances.keys()),
            "simulated": sorted(t.name for t in e._iter_all_tags() if getattr(t, "simulated", False)),
            "mstate": mstate, "runlog": runlog, "rlexc": rl_exc,
        }

    def _ctl(self):
        try:
            cs = self.mb.create_control_state_msg().control_state
            return {"running": bool(cs.is_running), "holding": bool(cs.is_holding), "paused": bool(cs.is_paused)}
        except Exception as ex:
            return {"exc": type(ex).__name__}

    def run_schedule(self, steps: list[dict]):
        for st in steps:
            for r in st.get("req", []):
                self.apply(r)
            self.tick(st.get("dt", 0.1), st.get("in"))
            if st.get("report"):
                self.report(snapshot=st["report"] == "snapshot")
        return self.events

    def close(self):
        _installed["sink"] = None
        _installed["run"] = None
        try:
            self.engine.cleanup()
        except Exception:
            pass
