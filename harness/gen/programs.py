"""Generated P-code methods for the interpreter corpus: all small programs over the control structures (enumerated from a
grammar of templates up to a bounded size and nesting) plus curated deeper ones."""
from __future__ import annotations

import itertools
import random

LEAVES = ["Mark: {k}", "Short", "Long", "Wait: 0.2s", "0.3 Mark: {k}", "Set1: {k}", "Wait: 0.05s", "0.15 Short"]
END = ["End block", "0.2 End block", "End blocks"]
COND = ["In > 2 L/h", "In >= 2 L/h", "In < 1 L/h", "In = 3 L/h"]


def _ind(lines, n=1):
    return ["    " * n + x for x in lines]


def _fill(lines):
    return [ln.format(k=i) if "{k}" in ln else ln for i, ln in enumerate(lines)]


def bodies(depth, rnd=None):
    """all bodies (lists of lines) of at most 2 statements with nesting depth <= depth"""
    stmts = [[x] for x in LEAVES[:5]]
    if depth > 0:
        inner = [[x] for x in LEAVES[:3]] + [[LEAVES[0], LEAVES[3]], [LEAVES[3], LEAVES[0]]]
        for b in inner:
            stmts.append(["Block: B"] + _ind(b + ["End block"]))
            stmts.append(["Block: B"] + _ind(b + ["0.2 End block"]))
            stmts.append(["Watch: " + COND[0]] + _ind(b))
            stmts.append(["Alarm: " + COND[0]] + _ind(b))
        stmts.append(["Macro: M"] + _ind([LEAVES[0], LEAVES[1]]) + ["Call macro: M"])
    return stmts


def enumerated(quick: bool, seed: int):
    rnd = random.Random(seed)
    stmts = bodies(1)
    progs = []
    for a in stmts:
        progs.append(a)
    for a, b in itertools.product(stmts, repeat=2):
        progs.append(a + b)
    triples = list(itertools.product(stmts, repeat=3))
    rnd.shuffle(triples)
    for a, b, c in triples[: (150 if quick else 1500)]:
        progs.append(a + b + c)
    out = []
    for p in progs:
        out.append(_fill(["Base: s"] + p + [""]))
    if quick:
        rnd.shuffle(out)
        out = out[:500]
    return out


CURATED = [
    # the main program lingers (Wait) in a block that a Watch has ended, while an unrelated Alarm outside that block runs
    ["Base: s", "Alarm: In > 2 L/h", "    Mark: x", "    Mark: y", "Block: B", "    Watch: In > 2 L/h", "        End block", "    Wait: 2.5s",
     "Mark: after", "Wait: 1.5s", "Mark: done", ""],
    ["Base: s", "Macro: M", "    Mark: m1", "    Mark: m2", "Watch: In > 2 L/h", "    Wait: 0.5s", "    Call macro: M", "Block: B",
     "    Watch: In > 2 L/h", "        End block", "    Wait: 2s", "Mark: after", ""],
    # nested blocks with alarm and watch, End block in a watch body
    ["Base: s", "Block: Outer", "    Mark: o1", "    Block: Inner", "        Mark: i1", "        0.3 End block", "    Mark: o2",
     "    Watch: In > 2 L/h", "        Mark: w", "        End block", "    Wait: 2s", "Mark: after", ""],
    ["Base: s", "Alarm: In > 2 L/h", "    Mark: a1", "    Short", "Block: B", "    Wait: 0.5s", "    End block", "Mark: X",
     "Wait: 1s", "Mark: Y", ""],
    ["Base: s", "Block: B", "    Alarm: In > 2 L/h", "        Mark: a", "    Watch: In > 2 L/h", "        Mark: w", "    0.6 End block",
     "Mark: after", "Wait: 1s", ""],
    ["Base: s", "Watch: In > 2 L/h", "    Block: FromWatch", "        Mark: fw", "        End block", "    Mark: w2", "Mark: m",
     "Wait: 1s", "Mark: n", ""],
    ["Base: s", "Macro: A", "    Mark: a1", "    Mark: a2", "Macro: B", "    Mark: b1", "    Call macro: A", "Call macro: B",
     "Call macro: A", "Mark: end", ""],
    ["Base: s", "Macro: A", "    Mark: a1", "Call macro: A", "Macro: A", "    Mark: a2", "Call macro: A", ""],
    ["Base: s", "Macro: A", "    Mark: a1", "    Call macro: A", "Call macro: A", "Mark: never", ""],
    ["Base: s", "Macro: A", "    Mark: a1", "    Call macro: B", "Macro: B", "    Mark: b1", "    Call macro: A", "Call macro: A", ""],
    ["Base: s", "Macro: A", "    Mark: a1", "    Call macro: B", "Macro: B", "    Mark: b1", "    Mark: b2", "    Call macro: A",
     "Call macro: B", ""],
    ["Base: s", "Block: B1", "    Mark: x", "    End block", "Block: B2", "    Mark: y", "    End blocks", "Mark: z", ""],
    ["Base: s", "Block: B1", "    Block: B2", "        Block: B3", "            Mark: deep", "            End blocks", "Mark: out", ""],
    ["Base: s", "Alarm: In > 2 L/h", "    Watch: In > 2 L/h", "        Mark: wa", "    Mark: al", "Wait: 3s", ""],
    ["Base: min", "0.005 Mark: t1", "Wait: 0.3s", "0.02 Mark: t2", "Base: s", "0.5 Mark: t3", ""],
    ["Base: h", "0.0001 Mark: h1", "Base: s", "Block: B", "    0.25 Mark: b", "    0.4 End block", "1.05 Mark: late", ""],
    ["Base: s", "Mark: a", "", "# comment", "Mark: b", "", "# trailing", ""],
    ["Base: s", "Watch: In > 2 L/h", "    Mark: w", "", "Mark: m", "Wait: 0.35s", "Wait: 0.1s", "Wait: 0.25s", "Mark: n", ""],
    ["Base: s", "OvA", "Mark: 1", "OvB", "Mark: 2", "Long", "Long", "Forever", "Wait: 0.5s", "Forever", "Stop", ""],
    ["Base: s", "Mark: a", "Wait: 0.05s", "Mark: b", "Wait: 0.1s", "Mark: c", "Wait: 0.25s", "Mark: d", ""],
    ["Base: s", "Macro: B", "    Mark: b1", "Macro: A", "    Call macro: B", "    Call macro: A", "Call macro: A", "Mark: after", ""],
    ["Base: s", "Macro: A", "    Block: MB", "        Mark: in", "        Call macro: A", "        End block", "Call macro: A", "Mark: x", ""],
    ["Base: s", "Macro: A", "    Mark: a1", "Watch: In > 2 L/h", "    Call macro: A", "Call macro: A", "Macro: A", "    Mark: a2",
     "Call macro: A", ""],
    ["Base: s", "Block: B", "    Watch: In > 2 L/h", "        Mark: w", "    Alarm: In > 2 L/h", "        Mark: a", "        End block",
     "    Wait: 3s", "Mark: after", "Wait: 1s", ""],
    ["Base: s", "Alarm: In > 2 L/h", "    Block: AB", "        Mark: ab", "        End block", "    Mark: a2", "Wait: 2s", "Mark: m", ""],
    ["Base: s", "Alarm: In > 2 L/h", "    Wait: 0.5s", "    Mark: aw", "Wait: 4s", ""],
    ["Base: s", "Macro: W", "    Wait: 0.4s", "    Mark: mw", "Call macro: W", "Call macro: W", "Mark: end", ""],
    ["Base: s", "Block: A", "    Watch: In > 2 L/h", "        Block: C", "            Mark: c1", "            End block", "    Block: B",
     "        Wait: 0.6s", "        End block", "    Wait: 0.6s", "    End block", "Mark: done", ""],
    ["Base: s", "Block: A", "    Alarm: In > 2 L/h", "        Block: C", "            Mark: c1", "            End block", "    Block: B",
     "        Wait: 0.4s", "        End block", "    Block: B2", "        Wait: 0.4s", "        End block", "    End block", "Mark: done", ""],
    ["Base: s", "Macro: M", "    Mark: A", "    Wait: 0.3s", "    Mark: B", "Watch: In > 2 L/h", "    Call macro: M", "Call macro: M",
     "Mark: X", "Call macro: M", "Mark: Y", ""],
    ["Base: s", "Block: B", "    Watch: In > 2 L/h", "        End block", "    Alarm: In > 2 L/h", "        Mark: X", "    Wait: 5s",
     "Mark: after", "Wait: 1s", ""],
    ["Base: s", "Block: B", "    Alarm: In > 2 L/h", "        Mark: X", "        Wait: 0.2s", "    Watch: In > 2 L/h", "        Wait: 0.2s",
     "        End block", "    Wait: 5s", "Mark: after", "Wait: 1s", ""],
    ["Base: s", "Block: B", "    Watch: In > 2 L/h", "        End block", "    Alarm: In > 2 L/h", "        Mark: X", "Mark: after",
     "Wait: 3s", ""],
    ["Base: s", "Block: B", "    Alarm: In > 2 L/h", "        Mark: X", "    Watch: In > 2 L/h", "        End block", "Mark: after",
     "Wait: 3s", ""],
    ["Base: s", "Block: B", "    Watch: Block Time > 0.3s", "        End block", "    Alarm: Block Time > 0.3s", "        Mark: X",
     "Mark: after", "Wait: 3s", ""],
    ["Block: B", "    Watch: Block Time > 0.3s", "        End block", "    Alarm: Block Time > 0.3s", "        Mark: X", "Mark: after", ""],
    ["Base: s", "Block: B", "    Alarm: Block Time > 0.2s", "        Mark: X", "        Wait: 0.2s", "    Watch: Block Time > 0.4s",
     "        End block", "Mark: after", "Wait: 2s", ""],
    ["Base: s", "Block: A", "    Block: B", "        Block: C", "            Mark: c", "            End block", "        Wait: 0.5s",
     "        Mark: b", "        End block", "    Wait: 0.3s", "    End block", "Mark: out", ""],
    ["Base: s", "Block: A", "    Block: B", "        Block: C", "            Watch: In > 2 L/h", "                End block",
     "            Wait: 2s", "        Wait: 0.5s", "        End block", "    Mark: a", "    End block", "Mark: out", ""],
    ["Base: s", "Pause: 0.3s", "Mark: p", "Hold: 0.2s", "Mark: h", "Block: B", "    0.2 Mark: inb", "    End block", ""],
]


def trajectories(n, rnd):
    """piecewise-constant trajectories of the input tag In over n ticks: below / equal / above the condition threshold"""
    levels = [0.0, 2.0, 3.0, 1.0]
    out = []
    for _ in range(3):
        cur, tr = rnd.choice(levels), []
        while len(tr) < n:
            tr += [cur] * rnd.randint(1, 6)
            cur = rnd.choice(levels)
        out.append(tr[:n])
    out.append([3.0] * n)
    out.append([0.0] * 6 + [3.0] * (n - 6))
    return out


def _rand_body(rnd, depth, in_block, counter):
    """a random body of 1-3 statements; blocks usually end themselves"""
    out = []
    for _ in range(rnd.randint(1, 3)):
        r = rnd.random()
        counter[0] += 1
        k = counter[0]
        thr = rnd.choice(["", "", "", "0.2 ", "0.5 "])
        if depth <= 0 or r < 0.45:
            out.append(thr + rnd.choice([f"Mark: m{k}", f"Mark: m{k}", "Short", "Long", "Wait: 0.2s", "Wait: 0.4s", f"Set1: {k}"]))
        elif r < 0.65:
            body = _rand_body(rnd, depth - 1, True, counter)
            if rnd.random() < 0.85:
                body.append(rnd.choice(["End block", "End block", "0.3 End block", "End blocks"]))
            out += [thr + f"Block: B{k}"] + _ind(body)
        elif r < 0.8:
            out += [thr + "Watch: " + rnd.choice(COND)] + _ind(_rand_body(rnd, depth - 1, in_block, counter))
        elif r < 0.92:
            out += [thr + "Alarm: " + rnd.choice(COND)] + _ind(_rand_body(rnd, depth - 1, in_block, counter))
        else:
            name = f"M{k}"
            out += [f"Macro: {name}"] + _ind(_rand_body(rnd, depth - 1, False, counter)) + [f"Call macro: {name}"]
            if rnd.random() < 0.5:
                out.append(f"Call macro: {name}")
    if in_block and rnd.random() < 0.1:
        out.append("End block")
    return out


def random_programs(n, seed):
    rnd = random.Random(seed * 7919 + 13)
    out = []
    for _ in range(n):
        out.append(["Base: s"] + _rand_body(rnd, 3, False, [0]) + ["Wait: 1s", "Mark: last", ""])
    return out
