"""Projection of a recorded engine run onto the event alphabet of specs/InterpTrace.tla.

Static facts of the program tree (parent, previous sibling, enclosing blocks / conditions / alarm / macro, whitespace,
threshold) are attached to every event that mentions a node; they are looked up in the latest program the engine reported
(`prog` after an edit, `injprog` after an injection).  All judgement is in the TLA+ monitor; this module only renames and
joins recorded fields.
"""
from __future__ import annotations

WS = ("BlankNode", "CommentNode")
UNTRACKED = ("ProgramNode", "BlankNode", "CommentNode", "InjectedNode", "NullNode")
FINITE_CMDS = ("Short", "Long", "Set1", "Set2", "OvA", "OvB", "OvC")


class Tree:
    def __init__(self):
        self.nodes: dict[str, dict] = {}
        self.children: dict[str, list[str]] = {}
        self.injected: set[str] = set()

    def load(self, nodes, injected=False):
        if not injected:
            keep = {k: v for k, v in self.nodes.items() if k in self.injected}
            self.nodes = keep
            self.children = {k: v for k, v in self.children.items() if k in self.injected}
        for n in nodes:
            self.nodes[n["id"]] = n
            if injected:
                self.injected.add(n["id"])
        for n in nodes:
            if not n["parent"]:
                continue
            self.children.setdefault(n["parent"], [])
            if n["id"] not in self.children[n["parent"]]:
                self.children[n["parent"]].append(n["id"])

    def ancestors(self, nid):
        out, cur, seen = [], self.nodes.get(nid, {}).get("parent", ""), set()
        while cur and cur in self.nodes and cur not in seen:
            seen.add(cur)
            out.append(cur)
            cur = self.nodes[cur].get("parent", "")
        return out

    def facts(self, nid) -> dict:
        n = self.nodes.get(nid)
        if n is None:
            return dict(known=False, site="?", suffix="", cls="?", ins="", parent="", pcls="", prev="", prevCls="", blocks=[], conds=[], rep=False,
                        alarm="", macro="", inj=False, ws=False, trail=False, thr=False, name="", args="", depth=0, tracked=False,
                        desc=[])
        anc = self.ancestors(nid)
        cls = n["cls"]
        sib = self.children.get(n["parent"], [])
        i = sib.index(nid) if nid in sib else 0
        prev = sib[i - 1] if i > 0 else ""
        blocks = [a for a in anc if self.nodes[a]["cls"] == "BlockNode"]
        conds = [a for a in anc if self.nodes[a]["cls"] in ("WatchNode", "AlarmNode")]
        alarms = [a for a in ([nid] + anc) if self.nodes[a]["cls"] == "AlarmNode"]
        macros = [a for a in ([nid] + anc) if self.nodes[a]["cls"] == "MacroNode"]
        inj = any(self.nodes[a]["cls"] == "InjectedNode" for a in [nid] + anc)
        ins = n.get("ins", "")
        suffix = ("-injected" if inj else "") + ("-in-alarm" if [a for a in alarms if a != nid] else "") + \
            ("-in-macro" if [a for a in macros if a != nid] else "")
        return dict(known=True, site=cls + suffix, suffix=suffix, cls=cls, ins=ins, parent=n["parent"], pcls=self.nodes.get(n["parent"], {}).get("cls", ""),
                    prev=prev, prevCls=self.nodes.get(prev, {}).get("cls", "") if prev else "",
                    blocks=blocks, conds=conds, rep=bool(alarms or macros), alarm=alarms[0] if alarms else "",
                    macro=macros[0] if macros else "", inj=inj, ws=cls in WS, trail=bool(n.get("trail", False)),
                    thr=bool(n.get("thr", False)), name=n.get("name", ""), args=n.get("args", ""), depth=len(blocks),
                    tracked=cls not in UNTRACKED and not inj and not (cls == "EngineCommandNode" and ins == "Stop"),
                    desc=[])

    def descendants(self, nid):
        out, stack = [], list(self.children.get(nid, []))
        while stack:
            c = stack.pop()
            out.append(c)
            stack.extend(self.children.get(c, []))
        return out


def _b(s):
    return s in (True, "True")


def project_interp(run) -> dict:
    tree = Tree()
    ev = []
    item_node: dict[int, str] = {}
    in_tick = False
    pending_edit = None
    for e in run["events"]:
        k = e["e"]
        if k == "prog":
            old_tree_macro = []
            if pending_edit is not None:
                for m in pending_edit["preF"].get("macroStarted", []):
                    old_tree_macro += [m] + tree.descendants(m)
            tree.load(e["nodes"])
            if pending_edit is not None:
                pe, pending_edit = pending_edit, None
                pe["macroLines"] = sorted(set(old_tree_macro))
                # a line that is new in this edit and lies inside a macro that had started running
                pe["addedInMacro"] = pe.pop("inMacro", "") in set(pe["preF"].get("macroStarted", []))
                pe["postLocked"] = [{"n": n, "depth": tree.facts(n)["depth"], "name": tree.facts(n)["name"], "inj": tree.facts(n)["inj"]}
                                    for n in pe["postF"]["locked"]]
                pe["postReg"] = [{"n": n, "blocks": tree.facts(n)["blocks"]} for n in pe["postF"]["registered"]]
                ev.append(pe)
        elif k == "injprog":
            tree.load(e["nodes"], injected=True)
            roots = [n["id"] for n in e["nodes"] if n["cls"] == "InjectedNode"]
            ev.append({"e": "injected", "root": roots[0] if roots else "", "nodes": [n["id"] for n in e["nodes"]], "t": e["t"]})
        elif k == "item":
            item_node[e["id"]] = e["node"]
        elif k == "tickBegin":
            ev.append({"e": "tb", "t": e["t"], "ms": e["ms"] - 1_000_000, "state": e["state"]})
        elif k == "itick":
            in_tick = e["phase"] == "begin"
            ev.append({"e": "it" if in_tick else "ie", "t": e["t"]})
        elif k == "flag":
            f = tree.facts(e["n"])
            phase = "run" if in_tick else ("edit" if e["ctx"] == "edit" else "other")
            new = e["new"]
            rec = {"e": "fl", "t": e["t"], "n": e["n"], "f": e["f"], "on": new == "True", "val": new, "same": e["old"] == e["new"],
                   "phase": phase, "ctx": e["ctx"], "reached": bool(e.get("reached", True)), "condNow": e.get("condNow", "n/a")}
            rec.update(f)
            if f["cls"] == "AlarmNode" or f["cls"] == "MacroNode":
                rec["desc"] = tree.descendants(e["n"])
            # the lines of a body that must have started when the body completes (a Macro definition is not "started" when it is
            # passed; a nested Watch / Alarm is judged by its own invocation)
            rec["kids"] = [c for c in tree.children.get(e["n"], [])
                           if tree.nodes[c]["cls"] not in WS + (() if f["cls"] == "InjectedNode" else ("MacroNode", "WatchNode", "AlarmNode"))] \
                if f["cls"] in ("InjectedNode", "WatchNode", "AlarmNode") else []
            if f["cls"] == "InterpreterCommandNode" and f["ins"] == "Wait":
                rec["waitMs"] = _dur_ms(f["args"])
            if f["prevCls"] == "InterpreterCommandNode" and tree.nodes.get(f["prev"], {}).get("ins") == "Wait":
                rec["prevWaitMs"] = _dur_ms(tree.nodes[f["prev"]].get("args", ""))
            else:
                rec["prevWaitMs"] = -1
            ev.append(rec)
        elif k == "thr":
            f = tree.facts(e["n"])
            ev.append({"e": "thr", "t": e["t"], "n": e["n"], "awaiting": e["awaiting"], "reached": e["reached"], "forced": e["forced"],
                       "completed": e["completed"], "cls": f["cls"], "site": f["site"], "inTick": in_tick})
        elif k == "tryact":
            f = tree.facts(e["n"])
            ev.append({"e": "ta", "t": e["t"], "n": e["n"], "condNow": e["condNow"], "forced": e["forced"], "cancelled": e["cancelled"],
                       "cls": f["cls"], "site": f["site"], "blocks": f["blocks"]})
        elif k == "rec":
            f = tree.facts(e["n"])
            r = {"e": "rec", "t": e["t"], "n": e["n"], "state": e["state"], "inTick": in_tick}
            r.update(f)
            pw = tree.nodes.get(f["prev"], {})
            r["prevWaitMs"] = _dur_ms(pw.get("args", "")) if pw.get("cls") == "InterpreterCommandNode" and pw.get("ins") == "Wait" else -1
            ev.append(r)
        elif k in ("init", "exec", "finalize"):
            node = item_node.get(e["inst"], "")
            f = tree.facts(node)
            ev.append({"e": k, "t": e["t"], "n": node, "name": e["name"], "inst": e["inst"], "inj": f["inj"], "rep": f["rep"], "suffix": f["suffix"], "conds": f["conds"], "macro": f["macro"], "cls": f["cls"], "args": f["args"],
                       "finite": e["name"] in FINITE_CMDS})
        elif k == "req":
            kind = e["k"]
            if kind == "control":
                ev.append({"e": "ctl", "t": e["t"], "name": e["name"], "res": e["res"]})
            elif kind in ("cancel", "force"):
                ev.append({"e": "cf", "t": e["t"], "k": kind, "res": e["res"], "n": item_node.get(e["item"], "")})
            elif kind == "inject":
                ev.append({"e": "inject", "t": e["t"], "res": e["res"], "preM": _ms(e.get("preM")), "postM": _ms(e.get("postM"))})
            elif kind == "edit":
                pending_edit = ({"e": "edit", "t": e["t"], "res": e["res"], "op": e.get("op", "set"), "changed": e.get("changed", []),
                           "removed": e.get("removed", []), "unchanged": bool(e.get("unchanged", False)),
                           "preM": _ms(e.get("preM")), "postM": _ms(e.get("postM")),
                           "preF": e.get("preF", _nof()), "postF": e.get("postF", _nof()),
                           "lines": [x[0] for x in e.get("lines", [])], "inMacro": e.get("inMacro", "")})
        elif k == "tickEnd":
            rl = e["runlog"]
            done_nodes = sorted({item_node.get(i["id"], "") for i in rl if i["state"] == "completed"})
            ev.append({"e": "te", "t": e["t"], "state": e["state"], "started": e["started"], "paused": e["paused"], "holding": e["holding"],
                       "runId": e["runId"], "block": e["block"], "exc": e["exc"], "rlexc": e["rlexc"],
                       "mstate": _ms(e["mstate"]),
                       "rl": [{"id": i["id"], "start": i["start"] - 1_000_000 if i["start"] else 0,
                               "end": i["end"] - 1_000_000 if i["end"] > 0 else -1, "state": i["state"],
                               "cancellable": i["cancellable"], "forcible": i["forcible"],
                               "cancelled": bool(i.get("cancelled", False)), "failed": bool(i.get("failed", False))} for i in rl],
                       "doneNodes": done_nodes})
    return {"id": run["id"], "family": run.get("family", ""), "ev": ev}


def _nof():
    return {"started": [], "completed": [], "failed": [], "activated": [], "locked": [], "ended": [], "registered": [],
            "cancelled": [], "forced": [], "macroStarted": []}


def _ms(m):
    if not m or "exc" in m:
        return {"started": [], "executed": [], "failed": [], "injected": [], "exc": True}
    return {"started": m["started"], "executed": m["executed"], "failed": m["failed"], "injected": m["injected"], "exc": False}


def _dur_ms(arg: str) -> int:
    import re
    from fractions import Fraction
    m = re.match(r"\s*([0-9.]+)\s*(s|min|h)\s*$", arg or "")
    if not m:
        return -1
    return int(Fraction(m.group(1)) * {"s": 1, "min": 60, "h": 3600}[m.group(2)] * 1000)
