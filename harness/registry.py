"""property id -> check module under harness/checks, plus the MANIFEST text of every claimed check."""

CHECKS = {
    "C23": "hwrecovery",
    "C24": "hwrecovery",
    "C25": "composite",
    "C21": "units",
    "C34": "csvhold",
    "C35": "errlog",
    "C22": "arglang",
    "C28": "aggregator",
    "C29": "aggregator",
    "C30": "aggregator",
    "C37": "activeusers",
    "C38": "engineids",
    "C31": "methodsave",
    "C39": "archive",
    "C17": "pcode",
    "C18": "linegrammar",
    "C10": "engine", "C11": "engine", "C12": "engine",
    "C06": "engine", "C07": "engine", "C08": "engine", "C09": "engine", "C13": "engine",
    "C01": "engine", "C02": "engine", "C03": "engine", "C04": "engine", "C05": "engine", "C14": "engine", "C15": "engine",
    "C41": "engine", "C16": "engine", "C36": "engine",
    "C33": "webpush", "C32": "access", "C19": "analyzer", "C20": "analyzer", "C40": "tickatomic", "C27": "runner",
}

MC = "model_checking"
EXP = "exploration"

# id -> (level, technique, level text, level note, design ref)
INTERP_TRUST = "Trusted: the harness-side observation (property descriptors on ast.Node flags, wrappers around PInterpreter.tick / _is_awaiting_threshold / _try_activate_node and Tracking._add_record_state, none of them in /repo), exact rational re-evaluation of clocks and conditions from the values every observer reads, virtual time. The monitor state is the implementation's flags; the clauses relate them to the program structure."

CLAIMS = {
    "C27": (MC, "TLA+ spec Runner.tla (NoLoss, NoStranded, AtMostOnce, StopImpliesData; TLC over all productions, timer steps and "
                "network faults; the as-coded variant that sends live messages while catching up is refuted) + monitor "
                "RunnerTrace.tla on executions of the real EngineRunner under a virtual-time asyncio loop",
            "500 (thorough 6250) scripted engine lives (1-3 runs with data ticks and stops) x 0-3 network outages of 0.05-25 s "
            "laid anywhere over them, plus scripts in which the engine stops its run or produces data exactly when the runner "
            "enters Failed / Disconnected / Reconnecting / CatchingUp; the runner's timer task, buffer and steady-state tasks and "
            "its random reconnect back-off run for real, sends take scripted delays so that several are in flight: every message "
            "reaches the aggregator, none is left in the buffer in a steady state or at the end, a message is resent only after a "
            "failed attempt, keeps its sequence number, sequence numbers are distinct, and a run's buffered data arrives before "
            "its run-stopped notification.",
            "Trusted: harness/vloop.py (select never blocks, it advances the clock), the scripted dispatcher (real "
            "EngineDispatcher sequence numbering; a request reaches the aggregator when send is called, a connection loss "
            "interrupts the wait for the response), stand-in messages from a scripted message builder.", "7 C27"),
    "C40": (MC, "TLA+ spec TickAtomic.tla (tick thread over the scheduling points of Engine.tick, request thread with / without the "
                "engine lock; TLC verifies Atomic with the lock and finds the race without it) + two-thread experiments on the real "
                "Engine at every scheduling point (hooks cb22a867), judged by TickAtomicTrace.tla",
            "2 scenarios x 5 request kinds (edit, inject, control, cancel, force) x the 9 points TLC's graph names (before-read, "
            "before-lock, locked, interpreter sub-tick (1st and 2nd), after-interpreter, before-commands, after-commands, unlocked, "
            "between ticks): the request thread is started when the tick thread stands at the point; a request issued inside the "
            "critical section must wait for the tick, the tick must not raise, the request must complete, and the state after 8 "
            "more ticks must equal that of one of the two sequential executions on fresh engines.",
            "Trusted: the 0.12 s grace given to the request thread (a request that still runs after it is taken to wait for the "
            "lock), virtual time, the digest of observable state. The hooks are add-only calls to a no-op unless OPENPECTUS_VERIF=1.",
            "7 C40"),
    "C19": (EXP, "TLA+ grammar Analyzer.tla enumerates instruction lines with the verdict the analysis owes (mustFlag; TLC initial states, "
                 "1134 lines); each is linted by the real lsp_analysis.lint against the definitions the real engine publishes; "
                 "AnalyzerTrace.tla compares",
            "Watch/Alarm/Simulate/Simulate off lines over defined tags, close misspellings, names with no similar tag, too short and "
            "missing names x missing operator / value x 7 units, command lines over defined, misspelt and unknown names x 6 "
            "arguments; every line alone and 600 (thorough 6000) random pairs in one method: lint never degrades to the generic "
            "'Parse error' diagnostic and every offending line carries an error diagnostic.",
            "Exploration level: the oracle only demands an error on the offending line. The stub aggregator serves the engine's own "
            "UOD definition; names of the spec are checked against what the engine publishes.", "7 C19"),
    "C20": (EXP, "Analyzer.tla lines that the real analysis accepts are executed on the real engine; AnalyzerTrace.tla clause "
                 "C20.accepted-method-runs-clean",
            "Every enumerated line without an error diagnostic (about 100-400 methods: conditions with compatible units, commands "
            "with regex arguments, Simulate with unit conversion) runs for 20 ticks with inputs below / above the condition "
            "values; no line may fail for a name, argument or unit reason.",
            "Exploration level. Failure reasons are classified from the engine's error text.", "7 C20"),
    "C16": (MC, "TLA+ design spec TagReport.tla (StampInRange, StampMonotone, StampIsChangeTick; TLC) + monitor TagReportTrace.tla on the "
                "tag reports built by the real EngineMessageBuilder in recorded engine runs",
            "In the program and random families of the engine corpus a report (delta, sometimes snapshot) is taken after 1-5 ticks and "
            "after every tick and request the changed tag values are recorded: every reported time lies between engine start and the "
            "current tick, never decreases per tag, and is not earlier than the tick in which the monitor saw the value change.",
            "Trusted: the time module inside the tag modules is replaced by the run's virtual clock (tags stamp time.time() in places); "
            "a value that (dis)appears because simulation is switched keeps its time; lower-bound clause only (a value set twice to the "
            "same value within a tick cannot be told apart).", "7 C16"),
    "C36": (MC, "TagReport.tla (ReceiverCurrent, CleanMeansKnown; TLC) + monitor TagReportTrace.tla on the same reports",
            "Every tag whose value (as Tag.get_value() returns it) differs from its value at the previous report is in the report with "
            "that value, no tag twice, a snapshot carries every tag; about 40 tags x 1500 runs x 40 ticks.",
            "Same as C16.", "7 C36"),
    "C33": (MC, "TLA+ spec WebPush.tla (six laws of the entitlement relation, TLC over all preferences of two users, 1.0M states) + "
                "WebPushTrace.tla recomputing WebPushDef!Recipients for every recorded publish_message call of the real publisher",
            "427 (thorough 4027) database contents written through the real WebPushRepository (users x roles x scope x topics x unit "
            "lists, 0-3 subscriptions per user, a unit id that is a prefix of another), 6 publishes each over all topics incl. "
            "new-contributor: the set of subscriptions that reach the HTTP post equals the entitled set, each once, never the "
            "contributor itself.",
            "Trusted: _post_webpush stubbed (records the subscription id), VAPID key setup bypassed, in-memory sqlite.", "7 C33"),
    "C32": (MC, "TLA+ spec Access.tla (laws of Allowed, TLC) + AccessTrace.tla judging recorded HTTP requests to the application wired by the "
                "real AggregatorServer.setup_fastapi",
            "Every route of the running application whose path names a unit or a run (29, enumerated from the app) x 3 resources "
            "(no role, one role, two roles) x 6 user role sets, plus the three listing endpoints and the language-server data "
            "accessors: a denied request is refused (401/403/404), reaches no engine (rpc stub), changes no aggregator state and "
            "leaks neither tag values nor names; an allowed request is not refused; listings contain exactly the allowed resources.",
            "Trusted: JWT validation replaced by a parser of test tokens (the role/name/id dependencies run for real), rpc stub, "
            "fastapi.testclient. A POST endpoint without a known request body makes the check fail as machinery.", "7 C32"),
    "C02": (MC, 'monitor InterpTrace.tla (TLC) on recorded interpreter micro-events of generated programs: order / once / parent / reset clauses',
            "536+ generated programs (all bodies of <= 3 statements over Mark, UOD commands, Wait, thresholds, Block/End block, Watch, Alarm, Macro/Call macro with one level of nesting, plus 24 curated deeper ones) x input trajectories x pause/hold, cancel/force, inject, stop/restart schedules, plus the random engine corpus; every assignment to a node's started/completed flag and every run-log Started record is an event: a node starts only after its previous sibling completed (commands: was passed to the engine; conditions: registered) and its parent started, never twice per invocation, its state is reset only inside alarm and macro bodies, trailing blank/comment lines never complete, a UOD command is initialised once per invocation.",
            INTERP_TRUST, "7 C02"),
    "C03": (MC, 'monitor InterpTrace.tla: threshold and Wait clauses with exact clock arithmetic',
            'Every evaluation of a threshold by the real interpreter is an event carrying the exact comparison of the scope clock it read (Block Time inside a block, else Scope Time, in the Base unit s/min/h) with the threshold: still waiting although reached and proceeding although not reached are violations; a node with a threshold starts only when reached or forced; the instruction after Wait: d starts >= d after the Wait began to execute and, over uninterrupted ticks, <= d rounded up to a tick plus one tick.',
            INTERP_TRUST, "7 C03"),
    "C04": (MC, 'monitor InterpTrace.tla: activation, body, cancel, block-end and re-arm clauses',
            "Every condition evaluation is an event with the condition's exact truth on the tag value read: activation only when true or forced, a true evaluation activates, body lines start only under an activated parent, never under a cancelled condition or an ended block, an alarm that completed a run is registered again by the end of the tick.",
            INTERP_TRUST, "7 C04"),
    "C05": (MC, 'monitor InterpTrace.tla: lock chain, Block tag, End block / End blocks clauses',
            'lock_acquired / block_ended assignments are events: a block is locked only when all locked blocks are its ancestors, End block ends exactly the innermost active block, End blocks ends all, a block completes only after it was ended, no registered Watch/Alarm survives the end of its block, at every tick end the Block tag names the innermost active block (none when no block is active or the run was stopped).',
            INTERP_TRUST, "7 C05"),
    "C14": (MC, 'monitor InterpTrace.tla: injection clauses',
            'Snippets (Mark, UOD commands, Wait, blocks) injected at random ticks of generated runs: the injected root starts at the next interpreter tick, its lines and commands run once, the reported method state is identical before and after the request, an injected finite command keeps executing until it is finalised.',
            INTERP_TRUST, "7 C14"),
    "C15": (MC, 'monitor InterpTrace.tla: run-log clauses evaluated on Tracking.get_runlog() at every tick end of every run',
            'ordered by start, distinct ids, no end before start, closed items have an end and offer neither cancel nor force, every completed method instruction has a completed item.',
            INTERP_TRUST, "7 C15"),
    "C41": (MC, 'monitor InterpTrace.tla: macro clauses',
            'Programs with redefinition, nested, recursive and mutually recursive calls, calls from watches and blocks inside macros: a body invocation starts only for the definition registered last under that name, never while that macro has an invocation in progress, a call node is not re-entered; edits touching a started macro must be rejected.',
            INTERP_TRUST, "7 C41"),
    "C01": (MC, 'monitor InterpTrace.tla: live-edit clauses on the interpreter state before and after every edit request',
            'Edit operations (append before the trailing blank line, change the last / first instruction line, insert a blank line) at random ticks of generated runs, up to several per run: an edit touching a started line is rejected and changes nothing, others are accepted, a live edit is merged (never replaces the interpreter), the flags of every node and the pending interrupts after the merge contain those before it, the reported method state contains what it contained before.',
            INTERP_TRUST, "7 C01"),

    "C23": (MC, "TLA+ spec HwRecovery.tla checked by TLC; every edge of its state graph replayed on the real "
                "ErrorRecoveryDecorator; recorded executions validated by HwRecoveryTrace.tla",
            "TLC checks the documented five-state protocol exhaustively for all call sequences up to the bound (quick 5, "
            "thorough 7 calls over connect/read/write/tick/time advances across both time-outs); every transition of that state "
            "graph plus long random call sequences are executed on the real decorator with a scripted device and virtual time, "
            "and TLC validates each recorded step (state, Connection Status, raised or masked, returned read value) against the "
            "spec's successor.",
            "Trusted: the scripted fake device (a failing call changes nothing), virtual time replacing time.time inside "
            "hardware_recovery, TLC. Back-off tick counts are not modelled.", "6.5, 7 C23"),
    "C24": (MC, "TLA+ spec HwRecovery.tla (NoLostWrite, NoStaleWrite) checked by TLC; state-graph behaviours replayed on the "
                "real decorator; device memory compared step by step by HwRecoveryTrace.tla",
            "Same exploration as C23 with write cycles of changing and unchanging values; after every call the device memory "
            "must equal the spec's (device = most recently accepted command after any successful write in OK; nothing but the "
            "latest commanded value is ever written; a write may be skipped only if the device already holds it).",
            "Trusted: fake device with per-call failure granularity (a call fails or succeeds as a whole, including its flushes).",
            "6.5, 7 C24"),
    "C25": (MC, "TLA+ spec Composite.tla checked by TLC (split-and-reassemble algorithm = per-register reference); every edge "
                "of its state graph replayed on the real Composite_Hardware; results and layer memories validated by CompositeTrace.tla",
            "TLC enumerates every assignment of 3-4 registers to 2-4 layers, every batch order (length <= 3, reads with repeats) and "
            "value, one and two successive batches, and checks the composite algorithm against the per-register reference; each "
            "transition is executed on the real class over recording layers and TLC compares read results and every layer's memory.",
            "Trusted: in-memory fake layers; write batches do not repeat a register.", "6.5, 7 C25"),
    "C21": (EXP, "TLA+ reference operator Units.tla (exact comparison with small integers; its algebraic laws checked by TLC) "
                 "against the real compare_values / are_comparable on every unit pair, validated record by record by UnitsTrace.tla",
            "TLC checks trichotomy, antisymmetry and operator consistency of the reference over a value grid; the real functions "
            "are run on every ordered pair of supported units of a quantity with values at and around the exact conversion "
            "points (each also +-1e-20) under all 7 operators, and on the full comparability table; TLC compares each result "
            "with the reference and checks symmetry of comparability.",
            "Trusted: the unit table transcribed into Units.tla (conversion factors as small rationals x power of ten), an "
            "exact Fraction-based pint registry used only to propose inputs. Values limited to what 28-digit decimals represent.",
            "6.9, 7 C21"),
    "C22": (EXP, "TLA+ reference languages ArgLang.tla (number / categorical argument grammars over character sequences) against "
                 "re.search on the real patterns, judged case by case by ArgLangTrace.tla",
            "For 9 unit lists (incl. regex metacharacters) x 4 number flavours and 8 option-list pairs, candidate strings from the "
            "documented language and near-misses (truncated, extended, case-changed, character-substituted units/options, doubled "
            "signs, stray whitespace, random token strings) are matched with the real patterns; TLC decides acceptance, the "
            "delivered number/unit/option substrings, and equality of the derived unit/option lists with the lists given.",
            "Trusted: the grammar transcription in ArgLang.tla. A bare number when units were declared is not judged.", "7 C22"),
    "C34": (MC, "TLA+ spec CsvHold.tla (sample-and-hold table; laws checked by TLC over every small plot log) against the real "
                "generate_csv_string, cell by cell, by CsvHoldTrace.tla",
            "TLC enumerates every plot log with 2-3 tags, sample times in 1..3/1..4, up to 3 samples per tag in any order (repeats, "
            "late starts, unsorted) and checks the table laws; each plot log is exported by the real code, the CSV parsed back and "
            "every cell compared with Hold(tag, row time).",
            "Trusted: csv.reader for reading back; row i is matched with the i-th distinct sample time (there is no time column).",
            "7 C34"),
    "C35": (MC, "TLA+ spec ErrLog.tla (reference Merge with laws NothingLost / OrderKept / BatchingIrrelevant checked by TLC) "
                "against the real AggregatedErrorLog.aggregate_with on every enumerated delivery, by ErrLogTrace.tla",
            "TLC enumerates every admissible delivery of up to 3 (thorough 4) entries over 2 messages x 2 severities x 3 times and "
            "every split into two batches; the real aggregation must equal the reference after each batch.",
            "Inputs never contain an entry older than the aggregated entry it would merge with (no meaning in the statement).",
            "7 C35"),
    "C28": (MC, "TLA+ spec Aggregator.tla (engine ground truth + aggregator memory + database; invariant RunContinues across "
                "disconnect, shutdown and crash) checked by TLC; every edge of its state graph and long random histories replayed "
                "on the real aggregator over sqlite and compared step by step by AggregatorTrace.tla",
            "TLC explores all histories (quick 5, thorough 6 steps) of engine start/stop, connect, disconnect, shutdown+boot, "
            "crash+boot, duplicated/late run-started and run-stopped and tag updates for any run id; every transition is executed "
            "on the real Aggregator + handlers + dispatcher with an in-memory database ('boot' = new Aggregator object on the same "
            "database) and TLC compares the active run, the recent-engine record, recent-run / plot-log counts and recorded rows.",
            "Trusted: mocked publishers, sqlite in memory, one engine. A run-stopped for a run other than the open one follows the code.",
            "6.7, 7 C28"),
    "C29": (MC, "Aggregator.tla invariants StrictlyIncreasingPerTag / Throttled / NeverOlder / Faithful checked by TLC; the same "
                "replayed histories, with the recorded plot-log rows compared and the invariants re-evaluated on the "
                "implementation's own rows by AggregatorTrace.tla",
            "Tag streams with stale (out-of-order), duplicated and late-appearing tags, for the open run, no run and other runs, "
            "before and after reconnects and restarts; every recorded row <<tag, reported time, recorded time>> is compared with "
            "the spec and checked against the four invariants incrementally.",
            "Tag values are integers equal to their report time; data-log interval 1; times are small integers.", "6.7, 7 C29"),
    "C30": (MC, "Aggregator.tla invariant OneRecentRunOnePlotLog checked by TLC; replayed histories with duplicated, resent and "
                "reordered run-started / run-stopped and disconnects; row counts per run id compared by AggregatorTrace.tla",
            "Same exploration as C28; after every step the number of RecentRun and PlotLog rows per run id must equal the spec's "
            "(never more than one).", "As C28.", "6.7, 7 C30"),
    "C37": (MC, "TLA+ spec ActiveUsers.tla (invariant ActiveOnlyWhileLive) checked by TLC; every edge of its state graph and random "
                "histories replayed on the real FromFrontend wired to the real FrontendPublisher; ActiveUsersTrace.tla compares "
                "the active-user lists after every event",
            "All histories (quick 6, thorough 8 events) of subscribe / register / unregister / connection close for 2 users, 3 "
            "single-use connections and 2 units; the subscribe and disconnect hooks are driven through the real pub/sub notifier "
            "and FrontendPublisher.on_disconnect.",
            "No real websocket; a user registers only while they have a live connection.", "6.7, 7 C37"),
    "C38": (EXP, "TLA+ spec EngineIds.tla (IdsInjective, NoTakeover; TLC) and EngineIdsTrace.tla judging the ids the real "
                 "create_engine_id hands out for every enumerated name pair and the register/connect histories on the real aggregator",
            "Every pair of computer / UOD names of length <= 2 over {a, _, /, %, space} plus percent-escape look-alikes is given "
            "to the real id function; TLC checks injectivity and classifies a collision by whether the separator explains it; "
            "random register / connect / disconnect histories over colliding and distinct engines check the takeover rule.",
            "Thin oracle (equality of ids); level exploration.", "7 C38"),
    "C31": (MC, "TLA+ spec MethodSave.tla: TLC refutes the unserialized check/round-trip/commit protocol (lost update) and verifies "
                "the serialized one; every interleaving of the unserialized state graph replayed on the real save_method coroutines "
                "with a gated fake engine; outcomes judged by the monitor MethodSaveTrace.tla",
            "All interleavings of 2 (thorough 3) save requests with bases 0..2 and every order / outcome of the engine replies; "
            "each is executed on real concurrent FromFrontend.save_method coroutines, the engine round trip being a future the "
            "harness resolves in the prescribed order; TLC checks accepted-only-on-current-version, at most one accepted per base, "
            "version + 1 per accept, returned version, and that every save completes.",
            "Trusted: fake dispatcher rpc_call; an interleaving answering a request the implementation has not forwarded is skipped.",
            "6.7, 7 C31"),
    "C39": (EXP, "TLA+ table model Archive.tla (rectangular; TLC) and ArchiveTrace.tla comparing, row by row, what the real "
                 "ArchiverTag wrote with what is read back using the archiver's own csv dialect",
            "Archives of 1-3 rows with Mark texts (single, and several joined by the Mark separator) and a text tag drawn from a "
            "hostile pool (delimiter, escape character, quote, newline, carriage return, tab, unicode, empty); every row must be "
            "one record with exactly the header's columns and unchanged values; a failure is named by the hostile class involved.",
            "Thin oracle (equality after read-back); level exploration. Virtual clock inside the archiver module.", "7 C39"),
    "C17": (EXP, "TLA+ reference operator PCode.tla (Structure: parent = nearest enclosing opener one level shallower / first "
                 "offending indentation; laws checked by TLC over all texts of <= 3-4 lines) against the real PcodeParser, judged "
                 "parse by parse by PCodeTrace.tla",
            "Every line sequence of length <= 3 (thorough <= 4: 168,420) over indent {0,2,4,8,12} x {opener, leaf, blank, comment}, "
            "plus random 5-9 line texts and random unicode junk, is rendered to P-code and parsed; TLC checks never-fails, one node "
            "per line in source order with the line's id, parent = reference parent on correct text, no error on correct text and "
            "an indentation error on the first offending line.",
            "Blank/comment lines are not judged for their parent; an opener may have an empty body.", "7 C17"),
    "C18": (EXP, "TLA+ grammar LineGrammar.tla enumerates the product of part pools with the composed text (TLC initial states); "
                 "the real PcodeParser parses each line and LineGrammarTrace.tla compares the recovered parts",
            "61,776 lines: indentation x threshold x name (with spaces/digits) x argument x comment separator x comment, and for "
            "Watch/Alarm/Simulate tag (with spaces) x all 7 operators x spacing x numeric (incl. negative, exponent) / string value "
            "x unit x tail (trailing blank, comment); quick takes a seeded sample of 25,000.",
            "Thin oracle (identity of parts); level exploration.", "7 C18"),
    "C06": (MC, "TLA+ design spec RunState.tla (SysStateAgrees, RunIdFresh; TLC exhaustive) whose behaviours are replayed as command "
                "schedules on the real Engine; the monitor RunStateTrace.tla checks the C06 clauses on every tick boundary and request",
            "TLC explores every sequence of <= 4-5 user control commands interleaved with <= 6-7 ticks; every edge of the replay "
            "graph (<= 3 commands, 5 ticks) plus 600 (thorough 8000) random schedules with method-issued Pause/Hold/Stop/Restart "
            "(with durations), injected code, cancel/force and failing instructions run on the real engine; at every tick "
            "boundary: Stopped iff no run, state = f(flags) or Restarting only during a restart, control-state message = flags, "
            "run id present/cleared/fresh; every user command accepted iff valid in the state at the request.",
            "Trusted: virtual time (engine.tick called directly, NullTimer), instrumented UOD + recording hardware, node-flag recorder; requests are applied between ticks. The RunState behaviours are input schedules, the verdict is the monitor's named clauses on the observed state.", "6.1, 7 C06"),
    "C07": (MC, "RunState.tla clock properties (TLC) + monitor clauses of RunStateTrace.tla on the same recorded runs",
            "Clocks in integer microseconds at every tick boundary: zero at run start, monotone within a run, Process Time / Block "
            "Time / Scope Time advance only over ticks that began in state Running, Run Time only while a run is active "
            "(block/scope clauses skip ticks with a scope change).",
            "Trusted: virtual time (engine.tick called directly, NullTimer), instrumented UOD + recording hardware, node-flag recorder; requests are applied between ticks. The RunState behaviours are input schedules, the verdict is the monitor's named clauses on the observed state. One-directional clauses (never require an advance).", "6.1, 7 C07"),
    "C08": (MC, "RunState.tla SafeWhenIdle / SafeWhilePaused (TLC) + monitor clauses on the recording hardware of the same runs + "
                "CmdMgr.tla (output tag, captured pre-pause value and hardware register modelled; SafeWhenNoRun holds, SafeWhilePaused "
                "is violated by the model exactly as by the code - the recorded finding - and the check asserts that) in lock-step "
                "with the real engine: Out1 and the hardware register are compared after every tick",
            "The device memory starts dirty; at every tick boundary: safe before the first run, safe after every Stop/Restart "
            "stop phase, safe throughout pauses (site-named: pause / error-pause / command-keeps-writing), no unsafe write while "
            "no run is active.",
            "Trusted: virtual time (engine.tick called directly, NullTimer), instrumented UOD + recording hardware, node-flag recorder; requests are applied between ticks. The RunState behaviours are input schedules, the verdict is the monitor's named clauses on the observed state. 'Unless the user commands that output during the pause' cannot occur in the harness.", "6.1, 7 C08"),
    "C09": (MC, "RunState.tla UnpauseRestoresLastPause / PrevNeverCrossesRuns (TLC) + monitor clause C09.unpause-restores on the runs "
                "+ CmdMgr.tla in lock-step: the value captured by Pause (Engine._prev_state) and the restored output are compared "
                "with the model after every tick",
            "Runs with user, method, timed and error pauses, double Pause requests, output changes between them, several runs per "
            "schedule: at the tick in which a pause ends the output tag equals the value at the last unpaused tick boundary of "
            "the same run (skipped when a writing command executed in the pause/unpause tick).",
            "Trusted: virtual time (engine.tick called directly, NullTimer), instrumented UOD + recording hardware, node-flag recorder; requests are applied between ticks. The RunState behaviours are input schedules, the verdict is the monitor's named clauses on the observed state.", "6.1, 7 C09"),
    "C13": (MC, "monitor clauses of RunStateTrace.tla on every recorded run: tick never raises, a failing instruction pauses with "
                "Method Status Error and is reported failed, an accepted Stop completes within 3 ticks",
            "All corpus runs (RunState graph schedules, random schedules over methods with unknown instructions, failing UOD "
            "commands, bad arguments, injected snippets, hardware within its domain).",
            "Trusted: virtual time (engine.tick called directly, NullTimer), instrumented UOD + recording hardware, node-flag recorder; requests are applied between ticks. The RunState behaviours are input schedules, the verdict is the monitor's named clauses on the observed state. Malformed-text classes are extended with the interpreter corpus.", "7 C13"),
    "C10": (MC, "TLA+ design spec Commands.tla (NoInstanceAfterStop etc.; TLC) + monitor CommandsTrace.tla on the engine corpus: "
                "clean-up clauses evaluated whenever a run ends (Stop, method Stop, Restart); tick-exact design spec CmdMgr.tla "
                "(structured like CommandManager: front insertion, per-tick done set, by-name instance lookup, two-phase Stop/Restart "
                "with manager replacement; TLC over all request sequences; the spec of the code before fix e60c335a violates it) in "
                "lock-step conformance with the real engine (CmdMgrLockTrace.tla: acceptance, run state, instance table, executing "
                "list and the exact order of init/exec/finalize calls compared after every tick)",
            "Corpus runs stop/restart at arbitrary ticks with long-running, overlapping and failing UOD commands, timed Pause/Hold and "
            "Simulate: at run end no UOD instance is left, no tag is simulated, the run id is cleared, the run-stopped message "
            "(built by the real EngineMessageBuilder in on_stop) can be produced and closes every UOD command that started; a new "
            "run starts from line 1.",
            "Trusted: virtual time, instrumented UOD (init/exec/finalize logged with instance ids), recording hardware, node-flag recorder; requests applied between ticks.", "6.3, 7 C10"),
    "C11": (MC, "Commands.tla invariants NoTwoConflictingExecuting / InitOnceBeforeExec / FinalizeExactlyOnce (TLC, all request / "
                "exec / cancel / stop interleavings of 3 commands) + monitor CommandsTrace.tla on the UOD call log of the corpus + "
                "CmdMgr.tla (HookOrder, NoOverlapTogether, NoOrphanInstance; TLC) in lock-step with the real command manager: the "
                "sequence of init/exec/finalize calls of every tick must equal the model's",
            "Per tick no two instances of one command and no two overlapping commands execute; init once before the first exec; "
            "no exec after finalize; finalize once and only after init; everything initialized is finalized when the run ends.",
            "Trusted: virtual time, instrumented UOD (init/exec/finalize logged with instance ids), recording hardware, node-flag recorder; requests applied between ticks.", "6.3, 7 C11"),
    "C12": (MC, "monitor CommandsTrace.tla on the cancel / force requests of the corpus (random item ids at random ticks)",
            "A request is accepted iff the latest run log offers the item as cancellable / forcible (named by request and item "
            "kind); a rejected request changes nothing observable; an accepted cancel of a Watch: its body never starts; of a timed "
            "Pause / Hold: the pause / hold ends (unless the user also paused / held); of a UOD command: it is finalized; an "
            "accepted force of a Watch / Wait / threshold line proceeds within two running ticks.",
            "Trusted: virtual time, instrumented UOD (init/exec/finalize logged with instance ids), recording hardware, node-flag recorder; requests applied between ticks.", "6.3, 7 C12"),
}
