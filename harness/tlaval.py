"""Parser for the TLA+ values TLC prints (state dumps, dot labels, PrintT output).

ints, strings, TRUE/FALSE, model values (bare identifiers), sets {..}, tuples <<..>>, records [a |-> v, ..],
functions (k :> v @@ k :> v), intervals a..b.  Sets become sorted lists wrapped in `TSet` (a list subclass),
records become dicts, functions become dicts keyed by the parsed key (tuples made hashable).
"""
from __future__ import annotations


class TSet(list):
    pass


class MV(str):
    """model value / bare identifier"""


def _hashable(v):
    if isinstance(v, list):
        return tuple(_hashable(x) for x in v)
    if isinstance(v, dict):
        return tuple(sorted((k, _hashable(x)) for k, x in v.items()))
    return v


class _P:
    def __init__(self, s: str):
        self.s = s
        self.i = 0

    def ws(self):
        while self.i < len(self.s) and self.s[self.i] in " \t\r\n":
            self.i += 1

    def peek(self, n=1):
        return self.s[self.i:self.i + n]

    def expect(self, tok):
        self.ws()
        if not self.s.startswith(tok, self.i):
            raise ValueError(f"expected {tok!r} at {self.i}: {self.s[self.i:self.i+40]!r}")
        self.i += len(tok)

    def value(self):
        self.ws()
        v = self.atom()
        self.ws()
        if self.peek(2) == "..":
            self.i += 2
            hi = self.atom()
            return TSet(range(v, hi + 1))
        return v

    def atom(self):
        self.ws()
        c = self.peek()
        if c == '"':
            return self.string()
        if self.peek(2) == "<<":
            self.i += 2
            items = self.items(">>")
            return items
        if c == "{":
            self.i += 1
            return TSet(self.items("}"))
        if c == "[":
            self.i += 1
            rec = {}
            self.ws()
            if self.peek() == "]":
                self.i += 1
                return rec
            while True:
                self.ws()
                k = self.ident()
                self.expect("|->")
                rec[k] = self.value()
                self.ws()
                if self.peek() == ",":
                    self.i += 1
                    continue
                self.expect("]")
                return rec
        if c == "(":
            self.i += 1
            fn = {}
            while True:
                k = self.value()
                self.expect(":>")
                fn[_hashable(k)] = self.value()
                self.ws()
                if self.peek(2) == "@@":
                    self.i += 2
                    continue
                self.expect(")")
                return fn
        if c == "-" or c.isdigit():
            j = self.i + 1
            while j < len(self.s) and self.s[j].isdigit():
                j += 1
            v = int(self.s[self.i:j])
            self.i = j
            return v
        name = self.ident()
        if name == "TRUE":
            return True
        if name == "FALSE":
            return False
        return MV(name)

    def ident(self):
        self.ws()
        j = self.i
        while j < len(self.s) and (self.s[j].isalnum() or self.s[j] in "_!"):
            j += 1
        if j == self.i:
            raise ValueError(f"identifier expected at {self.i}: {self.s[self.i:self.i+40]!r}")
        name = self.s[self.i:j]
        self.i = j
        return name

    def string(self):
        assert self.peek() == '"'
        j = self.i + 1
        out = []
        while self.s[j] != '"':
            if self.s[j] == "\\":
                j += 1
                out.append({"n": "\n", "t": "\t"}.get(self.s[j], self.s[j]))
            else:
                out.append(self.s[j])
            j += 1
        self.i = j + 1
        return "".join(out)

    def items(self, close):
        out = []
        self.ws()
        if self.s.startswith(close, self.i):
            self.i += len(close)
            return out
        while True:
            out.append(self.value())
            self.ws()
            if self.peek() == ",":
                self.i += 1
                continue
            self.expect(close)
            return out


def parse(s: str):
    p = _P(s)
    v = p.value()
    p.ws()
    if p.i != len(s):
        raise ValueError(f"trailing text at {p.i}: {s[p.i:p.i+40]!r}")
    return v


def parse_action_label(label: str):
    """'A(1,"ok")' -> ('A', [1, 'ok']);  'Tick' -> ('Tick', [])"""
    label = label.strip()
    if "(" not in label:
        return label, []
    name, rest = label.split("(", 1)
    assert rest.endswith(")"), label
    p = _P(rest[:-1])
    args = []
    p.ws()
    if p.i < len(p.s):
        while True:
            args.append(p.value())
            p.ws()
            if p.peek() == ",":
                p.i += 1
                continue
            break
    return name, args


def parse_state(label: str) -> dict:
    """'/\\ x = 1\n/\\ y = <<>>' -> {'x': 1, 'y': []}"""
    out = {}
    cur = None
    for line in label.split("\n"):
        if line.startswith("/\\ ") and " = " in line:
            name, val = line[3:].split(" = ", 1)
            cur = name.strip()
            out[cur] = val
        elif cur is not None:
            out[cur] += "\n" + line
    return {k: parse(v) for k, v in out.items()}


def to_py(v):
    """plain JSON-able python (sets -> lists, function keys -> str)"""
    if isinstance(v, dict):
        return {str(k): to_py(x) for k, x in v.items()}
    if isinstance(v, (list, tuple)):
        return [to_py(x) for x in v]
    if isinstance(v, MV):
        return str(v)
    return v
