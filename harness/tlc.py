"""Thin TLC runner: scratch metadirs, timeouts, summary / violation / coverage parsing.

Every TLC invocation of the framework goes through `run_tlc`.  A TLC run that crashes, times out or
reports a parse/semantic error raises `TlcFailure` (machinery failure, exit code 2 of ./check) -- it
is never turned into a VIOLATION or a pass.
"""
from __future__ import annotations

import os
import re
import shutil
import subprocess
import tempfile
import time
from dataclasses import dataclass, field
from pathlib import Path

VERIF = Path(__file__).resolve().parent.parent
SPECS = VERIF / "specs"
SCRATCH_ROOT = VERIF / ".scratch"
JAR = "/opt/veriftools/tla/tla2tools.jar:/opt/veriftools/tla/CommunityModules-deps.jar"


class TlcFailure(Exception):
    pass


@dataclass
class TlcResult:
    ok: bool                       # no invariant / property / assumption violated
    generated: int = 0
    distinct: int = 0
    depth: int = 0
    wall_s: float = 0.0
    output: str = ""
    violated: str | None = None    # name of the violated invariant / property
    error_state: dict = field(default_factory=dict)   # variables of the last state of the counterexample (raw strings)
    error_trace: list = field(default_factory=list)   # list of (action header, {var: raw}) for the counterexample
    coverage: dict = field(default_factory=dict)      # action name -> (distinct, total)
    prints: list = field(default_factory=list)        # PrintT lines (raw)
    cmd: str = ""


def new_scratch(prefix: str = "s") -> Path:
    SCRATCH_ROOT.mkdir(parents=True, exist_ok=True)
    return Path(tempfile.mkdtemp(prefix=prefix + "-", dir=SCRATCH_ROOT))


def rm_scratch(p: Path) -> None:
    shutil.rmtree(p, ignore_errors=True)


_SUMMARY = re.compile(r"(\d+) states generated, (\d+) distinct states found, (\d+) states left on queue")
_DEPTH = re.compile(r"The depth of the complete state graph search is (\d+)")
_INV = re.compile(r"Error: Invariant (\S+) is violated")
_PROP = re.compile(r"Error: (?:Action property|Temporal properties?) (\S*)\s*(?:is|were) violated")
_STATE_HDR = re.compile(r"^State (\d+): (.*)$")
_COV = re.compile(r"^<(\w+) line (\d+), col (\d+) to line (\d+), col (\d+) of module (\w+)>: (\d+):(\d+)")


def _parse_trace(out: str):
    """Parse the counterexample states TLC prints ('State n: <Action ...>' followed by /\\ var = value lines)."""
    trace = []
    cur = None
    for line in out.splitlines():
        m = _STATE_HDR.match(line)
        if m:
            cur = (m.group(2), {})
            trace.append(cur)
            cur_var = None
            continue
        if cur is None:
            continue
        if line.startswith("/\\ ") and " = " in line:
            name, val = line[3:].split(" = ", 1)
            cur[1][name.strip()] = val
            cur_var = name.strip()
        elif line.strip() == "":
            cur_var = None
            if trace and cur[1]:
                cur = None
        elif cur_var is not None:
            cur[1][cur_var] += "\n" + line
    return trace


def run_tlc(module: str, cfg: str | None = None, *, workers: int | str = "auto", timeout: int = 600,
            env: dict | None = None, extra: list[str] | None = None, coverage: bool = False,
            deadlock: bool = True, specdir: Path | None = None, java_opts: list[str] | None = None,
            allow_violation: bool = True, max_heap: str = "8g") -> TlcResult:
    """Run TLC on specs/<module>.tla with specs/<cfg> (default <module>.cfg)."""
    specdir = specdir or SPECS
    cfg = cfg or module + ".cfg"
    scratch = new_scratch("tlc")
    try:
        gc = ["-XX:+UseSerialGC", "-XX:TieredStopAtLevel=1"] if str(workers) == "1" else ["-XX:+UseParallelGC"]
        cmd = ["java", "-Dfile.encoding=UTF-8", "-Dstdout.encoding=UTF-8", "-Dstderr.encoding=UTF-8"] + gc + ["-Xmx" + max_heap] + (java_opts or []) + [
            "-cp", JAR, "tlc2.TLC", "-workers", str(workers), "-metadir", str(scratch / "meta"),
            "-noGenerateSpecTE", "-config", str(cfg)]
        if not deadlock:
            cmd.append("-deadlock")       # -deadlock = do NOT check for deadlock
        if coverage:
            cmd += ["-coverage", "1"]
        cmd += (extra or [])
        cmd.append(module + ".tla")
        e = dict(os.environ)
        e["LC_ALL"] = "C.UTF-8"
        e["JAVA_TOOL_OPTIONS"] = (e.get("JAVA_TOOL_OPTIONS", "") + " -Dfile.encoding=UTF-8").strip()
        e.update(env or {})
        t0 = time.time()
        try:
            p = subprocess.run(cmd, cwd=specdir, env=e, capture_output=True, text=True, encoding="utf-8", errors="replace",
                               timeout=timeout)
        except subprocess.TimeoutExpired as ex:
            subprocess.run(["pkill", "-f", str(scratch)], capture_output=True)
            raise TlcFailure(f"TLC timed out after {timeout}s: {' '.join(cmd)}") from ex
        out = p.stdout + p.stderr
        res = TlcResult(ok=True, output=out, wall_s=time.time() - t0, cmd=" ".join(cmd))
        for m in _SUMMARY.finditer(out):
            res.generated, res.distinct = int(m.group(1)), int(m.group(2))
        m = _DEPTH.search(out)
        if m:
            res.depth = int(m.group(1))
        res.prints = [ln for ln in out.splitlines() if ln.startswith("<<\"") or ln.startswith("\"@")]
        if coverage:
            for line in out.splitlines():
                m = _COV.match(line.strip())
                if m:
                    res.coverage[m.group(1)] = (int(m.group(7)), int(m.group(8)))
        m = _INV.search(out) or _PROP.search(out)
        if m:
            res.ok = False
            res.violated = m.group(1)
            res.error_trace = _parse_trace(out)
            if res.error_trace:
                res.error_state = res.error_trace[-1][1]
        elif "Error: Deadlock reached" in out:
            res.ok = False
            res.violated = "Deadlock"
            res.error_trace = _parse_trace(out)
            if res.error_trace:
                res.error_state = res.error_trace[-1][1]
        elif "Error:" in out or p.returncode not in (0,):
            # parse errors, semantic errors, evaluation errors, assumption failures, JVM trouble
            if "Assumption" in out and "is false" in out:
                res.ok = False
                res.violated = "Assumption"
            elif "The postcondition" in out or "Postcondition" in out:
                res.ok = False
                res.violated = "Postcondition"
            else:
                tail = "\n".join(out.splitlines()[-60:])
                raise TlcFailure(f"TLC failed (rc={p.returncode}) for {module}/{cfg}:\n{tail}")
        if not res.ok and not allow_violation:
            tail = "\n".join(out.splitlines()[-80:])
            raise TlcFailure(f"design spec {module}/{cfg} violates {res.violated}:\n{tail}")
        return res
    finally:
        rm_scratch(scratch)


def dump_graph(module: str, cfg: str, out_dot: Path, *, timeout: int = 600, env: dict | None = None,
               workers: int | str = 1) -> TlcResult:
    """Model-check and dump the labelled state graph (edge labels carry action parameters)."""
    stem = str(out_dot)
    if stem.endswith(".dot"):
        stem = stem[:-4]
    return run_tlc(module, cfg, workers=workers, timeout=timeout, env=env,
                   extra=["-dump", "dot,actionlabels", stem])
