"""A deterministic asyncio event loop on virtual time: `select` never blocks, it advances the clock to the next timer.
Used to run the real EngineRunner (its timer task, state tasks and reconnect back-off) in milliseconds and reproducibly."""
from __future__ import annotations

import asyncio
import selectors


class _Clock:
    def __init__(self):
        self.t = 0.0


class _VSelector(selectors.BaseSelector):
    def __init__(self, clock):
        self.clock = clock
        self._map = {}

    def register(self, fileobj, events, data=None):
        key = selectors.SelectorKey(fileobj, fileobj if isinstance(fileobj, int) else fileobj.fileno(), events, data)
        self._map[key.fd] = key
        return key

    def unregister(self, fileobj):
        fd = fileobj if isinstance(fileobj, int) else fileobj.fileno()
        return self._map.pop(fd, None)

    def modify(self, fileobj, events, data=None):
        self.unregister(fileobj)
        return self.register(fileobj, events, data)

    def select(self, timeout=None):
        if timeout is None:
            raise RuntimeError("virtual loop would block forever (no timers, nothing ready)")
        if timeout > 0:
            self.clock.t += timeout
        return []

    def get_map(self):
        return self._map

    def close(self):
        self._map.clear()


class VirtualLoop(asyncio.SelectorEventLoop):
    def __init__(self):
        self.clock = _Clock()
        super().__init__(selector=_VSelector(self.clock))

    def time(self):
        return self.clock.t


def run(coro_fn, *args):
    """run `coro_fn(loop, *args)` to completion on a fresh virtual loop"""
    loop = VirtualLoop()
    asyncio.set_event_loop(loop)
    try:
        return loop.run_until_complete(coro_fn(loop, *args))
    finally:
        try:
            pending = [t for t in asyncio.all_tasks(loop) if not t.done()]
            for t in pending:
                t.cancel()
            if pending:
                loop.run_until_complete(asyncio.gather(*pending, return_exceptions=True))
        finally:
            asyncio.set_event_loop(None)
            loop.close()
