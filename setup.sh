#!/bin/sh
# Nothing to build: the harness is pure Python run by /venv/bin/python, the specs are checked by the pre-installed TLC.
set -e
cd "$(dirname "$0")"
mkdir -p evidence replays .scratch
rm -rf .scratch/* 2>/dev/null || true
java -version >/dev/null 2>&1
/venv/bin/python -c "import sys; sys.path.insert(0,'.'); import harness.core, harness.tlc, harness.dotgraph, harness.tlaval"
echo setup ok
