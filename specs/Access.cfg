CONSTANTS Roles = {"r1", "r2", "r3"}
SPECIFICATION Spec
INVARIANT OpenToAll
INVARIANT NoRoleNoAccess
INVARIANT AnyOneRoleSuffices
INVARIANT MonotoneInRoles
INVARIANT LackingEveryRoleIsDenied
