------------------------------- MODULE Access -------------------------------
(***************************************************************************)
(* Role-based access to process units and recent runs (C32).                *)
(*                                                                          *)
(* A resource (unit or recent run) carries a set of required roles; a user  *)
(* a set of roles.  The user may see / command the resource iff it requires *)
(* no role or the user has one of the required roles.  Every endpoint that  *)
(* names a resource is either refused (denied) or served (allowed);         *)
(* listing endpoints return exactly the allowed resources.                  *)
(* The module also carries a tiny transition system so TLC can check the    *)
(* laws over all role sets of a small universe.                             *)
(***************************************************************************)
EXTENDS Naturals, FiniteSets, Sequences, AccessDef

CONSTANTS Roles
VARIABLES required, roles
vars == <<required, roles>>
Init == required \in SUBSET Roles /\ roles \in SUBSET Roles
Next == UNCHANGED vars
Spec == Init /\ [][Next]_vars

OpenToAll == required = {} => Allowed(required, roles)
NoRoleNoAccess == (required # {} /\ roles = {}) => ~Allowed(required, roles)
AnyOneRoleSuffices == \A r \in required : r \in roles => Allowed(required, roles)
MonotoneInRoles == \A more \in SUBSET Roles : Allowed(required, roles) => Allowed(required, roles \cup more)
LackingEveryRoleIsDenied == (required # {} /\ required \cap roles = {}) => ~Allowed(required, roles)
=============================================================================
