------------------------------ MODULE AccessDef ------------------------------
(* The access relation of C32, shared by Access.tla (laws, TLC) and AccessTrace.tla (recorded requests). *)
EXTENDS Naturals, FiniteSets

Allowed(required, roles) == required = {} \/ required \cap roles # {}

(* the outcome classes of a request *)
Refusal == {401, 403, 404}
Served(status) == status \notin Refusal

=============================================================================
