----------------------------- MODULE AccessTrace -----------------------------
(***************************************************************************)
(* Validates recorded requests to the real aggregator application (C32).    *)
(* Events:                                                                  *)
(*  [e |-> "request", route, method, required, roles, status, effect,        *)
(*        leaked]   one request naming a unit / run; effect = the request    *)
(*        reached the engine (rpc) or changed aggregator state; leaked =     *)
(*        the response body carries data of the resource                     *)
(*  [e |-> "listing", route, roles, resources |-> <<[id, required]>>,         *)
(*        returned |-> <<ids>>]                                               *)
(*  [e |-> "editor", route, required, roles, answered]   a method-editor      *)
(*        (LSP) request that names a unit; answered = it returned unit data  *)
(***************************************************************************)
EXTENDS Integers, Sequences, FiniteSets, TLC, TraceLib, AccessDef

VARIABLES tid, l, viols, done
tvars == <<tid, l, viols, done>>
T == Traces[tid].ev
SetOfSeq(q) == {q[i] : i \in DOMAIN q}

Clauses(e) ==
    CASE e.e = "request" ->
           LET ok == Allowed(SetOfSeq(e.required), SetOfSeq(e.roles)) IN
           << <<"C32.denied-request-is-refused@" \o e.route, ~ok => ~Served(e.status)>>,
              <<"C32.denied-request-has-no-effect@" \o e.route, ~ok => ~e.effect>>,
              <<"C32.denied-request-leaks-nothing@" \o e.route, ~ok => ~e.leaked>>,
              <<"C32.allowed-request-is-not-refused@" \o e.route, ok => e.status \notin {401, 403}>> >>
      [] e.e = "listing" ->
           LET want == {r.id : r \in {x \in SetOfSeq(e.resources) : Allowed(SetOfSeq(x.required), SetOfSeq(e.roles))}}
               got == SetOfSeq(e.returned) \cap {r.id : r \in SetOfSeq(e.resources)} IN
           << <<"C32.listing-omits-denied@" \o e.route, got \subseteq want>>,
              <<"C32.listing-shows-allowed@" \o e.route, want \subseteq got>> >>
      [] e.e = "editor" ->
           << <<"C32.editor-refuses-denied@" \o e.route, ~Allowed(SetOfSeq(e.required), SetOfSeq(e.roles)) => ~e.answered>> >>

TInit == tid \in 1..Len(Traces) /\ l = 1 /\ viols = {} /\ done = FALSE
Step == /\ l <= Len(T)
        /\ viols' = AddViols(viols, Failing(Clauses(T[l])), l)
        /\ l' = l + 1 /\ UNCHANGED <<tid, done>>
Finish == /\ l = Len(T) + 1 /\ ~done /\ done' = TRUE /\ Report(Traces[tid].id, l - 1, viols) /\ UNCHANGED <<tid, l, viols>>
TSpec == TInit /\ [][Step \/ Finish]_tvars
=============================================================================
