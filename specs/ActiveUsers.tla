----------------------------- MODULE ActiveUsers -----------------------------
(***************************************************************************)
(* Active-user list of process units (C37).  A browser tab is a live       *)
(* connection that announced its user (dead-man switch); a user registers  *)
(* as active on a unit while looking at it.  When the user's last live     *)
(* connection closes, the user is removed from every unit.                 *)
(***************************************************************************)
EXTENDS Naturals, FiniteSets, TLC

CONSTANTS Users, Conns, Units, MaxLevel
None == "none"

VARIABLES live,     \* [Conns -> Users \cup {None}] user of each live connection
          used,     \* connections that were opened at some time (a connection id is never reused)
          active,   \* [Units -> SUBSET Users]
          last
vars == <<live, used, active, last>>

Cur == [live |-> live, used |-> used, active |-> active, last |-> last]
Apply(n) == live' = n.live /\ used' = n.used /\ active' = n.active /\ last' = n.last

HasLive(lv, u) == \E c \in Conns : lv[c] = u

SubscribeF(c, u) == [Cur EXCEPT !.live[c] = u, !.used = used \cup {c}, !.last = <<"Subscribe", <<c, u>> >>]
RegisterF(e, u) == [Cur EXCEPT !.active[e] = @ \cup {u}, !.last = <<"Register", <<e, u>> >>]
UnregisterF(e, u) == [Cur EXCEPT !.active[e] = @ \ {u}, !.last = <<"Unregister", <<e, u>> >>]
CloseF(c) ==
    LET u == live[c]
        lv2 == [live EXCEPT ![c] = None] IN
    [Cur EXCEPT !.live = lv2,
                !.active = IF u # None /\ ~HasLive(lv2, u) THEN [e \in Units |-> active[e] \ {u}] ELSE active,
                !.last = <<"Close", <<c>> >>]

Init == /\ live = [c \in Conns |-> None] /\ used = {} /\ active = [e \in Units |-> {}] /\ last = <<"Init", <<>> >>
Next == \/ \E c \in Conns \ used, u \in Users : Apply(SubscribeF(c, u))
        \/ \E e \in Units, u \in Users : HasLive(live, u) /\ Apply(RegisterF(e, u))
        \/ \E e \in Units, u \in Users : u \in active[e] /\ Apply(UnregisterF(e, u))
        \/ \E c \in Conns : live[c] # None /\ Apply(CloseF(c))
Spec == Init /\ [][Next]_vars
Bound == TLCGet("level") <= MaxLevel

ActiveOnlyWhileLive == \A e \in Units : \A u \in active[e] : HasLive(live, u)
=============================================================================
