CONSTANTS
  Users = {"u1", "u2"}
  Conns = {"c1", "c2", "c3"}
  Units = {"e1", "e2"}
  MaxLevel = 9
SPECIFICATION Spec
CONSTRAINT Bound
INVARIANT ActiveOnlyWhileLive
CHECK_DEADLOCK FALSE
