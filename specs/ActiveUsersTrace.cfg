CONSTANTS
  Users = {"u1", "u2"}
  Conns = {"c1", "c2", "c3"}
  Units = {"e1", "e2"}
  MaxLevel = 1000
SPECIFICATION TSpec
CHECK_DEADLOCK FALSE
