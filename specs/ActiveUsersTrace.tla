-------------------------- MODULE ActiveUsersTrace --------------------------
(* Validates recorded histories of the real FromFrontend (subscribe / register / unregister / websocket close) (C37). *)
(* Event: [a, c, u, e, post |-> [active |-> [unit |-> <<users>>], exc]]                                               *)
EXTENDS ActiveUsers, TraceLib, Sequences
VARIABLES tid, l, viols, done
tvars == <<vars, tid, l, viols, done>>
T == Traces[tid].ev

Expected(e) ==
    CASE e.a = "Subscribe" -> SubscribeF(e.c, e.u)
      [] e.a = "Register" -> RegisterF(e.e, e.u)
      [] e.a = "Unregister" -> UnregisterF(e.e, e.u)
      [] e.a = "Close" -> CloseF(e.c)

PostActive(p) == [x \in Units |-> {p.active[x][i] : i \in DOMAIN p.active[x]}]
(* a close is "the last one" if the user has no other live connection; whether the user had other connections earlier *)
(* decides the site name                                                                                              *)
Site(e) == IF e.a = "Close" /\ live[e.c] # None /\ ~HasLive([live EXCEPT ![e.c] = None], live[e.c])
           THEN (IF Cardinality({c \in used : c # e.c}) > 0 THEN "last-close-after-earlier-connections" ELSE "last-close")
           ELSE e.a

Clauses(e, x) ==
    LET pa == PostActive(e.post) IN
    << <<"C37.no-raise@" \o Site(e), e.post.exc = "none">>,
       <<"C37.active-list@" \o Site(e), pa = x.active>>,
       <<"C37.active-only-while-live@" \o Site(e), e.a # "Close" \/ \A un \in Units : \A u \in pa[un] : HasLive(x.live, u)>> >>

TInit == Init /\ tid \in 1..Len(Traces) /\ l = 1 /\ viols = {} /\ done = FALSE
Step == /\ l <= Len(T)
        /\ LET e == T[l]  x == Expected(e)  bad == Failing(Clauses(e, x)) IN
           /\ Apply(IF bad = {} THEN x ELSE [x EXCEPT !.active = PostActive(e.post)])
           /\ viols' = AddViols(viols, bad, l)
        /\ l' = l + 1 /\ UNCHANGED <<tid, done>>
Finish == /\ l = Len(T) + 1 /\ ~done /\ done' = TRUE /\ Report(Traces[tid].id, l - 1, viols) /\ UNCHANGED <<vars, tid, l, viols>>
TSpec == TInit /\ [][Step \/ Finish]_tvars
=============================================================================
