----------------------------- MODULE Aggregator -----------------------------
(***************************************************************************)
(* Aggregator run bookkeeping for one engine (C28, C29, C30).              *)
(*                                                                         *)
(* In-memory engine data (lost on restart), the database (survives), and   *)
(* the engine's own ground truth (which run it is executing).  Messages    *)
(* from the engine may be duplicated, resent late and reordered: a         *)
(* Deliver* action is enabled whenever the engine has ever produced such a *)
(* message.  Every action is a function `<A>F(args)` to the record of next *)
(* values so that AggregatorTrace can compare the real aggregator with the *)
(* expected successor.                                                     *)
(*                                                                         *)
(* A tag value is identified by the time the engine reported it (the       *)
(* harness sends value = reported time), so a recorded row <<tag, t, T>>   *)
(* says: the value reported at t was recorded with timestamp T.            *)
(***************************************************************************)
EXTENDS Naturals, Sequences, FiniteSets, TLC

CONSTANTS NRuns,      \* the engine uses run ids r1, r2, ... in this order
          Tags,       \* e.g. {"A", "B"}
          MaxT,       \* tag report times are 1..MaxT
          Interval,   \* data-log interval
          MaxLevel

None == "none"
Runs == [i \in 1..NRuns |-> "r" \o ToString(i)]
RunIds == {Runs[i] : i \in DOMAIN Runs}

VARIABLES
  \* engine ground truth
  engRun, nStarted, stoppedSet,
  \* aggregator memory
  reg, run, lastP, cur,
  restoredP,     \* history: the open run was restored from the database and nothing was recorded since
  \* database
  dbEngine, recentRuns, plotLogs, rows,
  announced,     \* history: the run the aggregator was last told has started (None after its stop / after interference)
  \* history: <<action, args>>
  last

vars == <<engRun, nStarted, stoppedSet, reg, run, lastP, cur, restoredP, dbEngine, recentRuns, plotLogs, rows, announced, last>>

Cur == [engRun |-> engRun, nStarted |-> nStarted, stoppedSet |-> stoppedSet, reg |-> reg, run |-> run,
        lastP |-> lastP, cur |-> cur, restoredP |-> restoredP, dbEngine |-> dbEngine, recentRuns |-> recentRuns,
        plotLogs |-> plotLogs, rows |-> rows, announced |-> announced, last |-> last]

Apply(n) == /\ engRun' = n.engRun /\ nStarted' = n.nStarted /\ stoppedSet' = n.stoppedSet /\ reg' = n.reg
            /\ run' = n.run /\ lastP' = n.lastP /\ cur' = n.cur /\ restoredP' = n.restoredP /\ dbEngine' = n.dbEngine
            /\ recentRuns' = n.recentRuns /\ plotLogs' = n.plotLogs /\ rows' = n.rows /\ announced' = n.announced
            /\ last' = n.last

NoTags == [g \in Tags |-> 0]          \* 0 = the aggregator has no value for the tag
Started == {Runs[i] : i \in 1..nStarted}

(* ---------------- engine (environment) ---------------- *)
EngStartF == [Cur EXCEPT !.engRun = Runs[nStarted + 1], !.nStarted = nStarted + 1, !.last = <<"EngStart", <<>> >>]
EngStopF == [Cur EXCEPT !.engRun = None, !.announced = None, !.stoppedSet = stoppedSet \cup {engRun}, !.last = <<"EngStop", <<>> >>]

(* ---------------- connection life cycle ---------------- *)
(* the engine registers, opens its websocket and sends its UOD info (readings) in one step *)
(* a run that was open when the engine was last seen is continued; persistence resumes after the last recorded time *)
MaxOr0(S) == IF S = {} THEN 0 ELSE CHOOSE x \in S : \A y \in S : y <= x
ConnectF ==
    LET restored == IF dbEngine \in RunIds THEN dbEngine ELSE None IN
    [Cur EXCEPT !.reg = TRUE, !.run = restored,
                !.lastP = IF restored = None THEN 0 ELSE MaxOr0({x[3] : x \in rows[restored]}),
                !.cur = NoTags, !.restoredP = (restored # None),
                !.last = <<"Connect", <<>> >>]

StoreEngine(r) == [r EXCEPT !.dbEngine = r.run]       \* store_recent_engine: remembers the active run (or none)

DisconnectF == [StoreEngine(Cur) EXCEPT !.reg = FALSE, !.run = None, !.lastP = 0, !.cur = NoTags,
                                        !.restoredP = FALSE, !.last = <<"Disconnect", <<>> >>]
ShutdownBootF == [(IF reg THEN StoreEngine(Cur) ELSE Cur) EXCEPT !.reg = FALSE, !.run = None, !.lastP = 0,
                                        !.cur = NoTags, !.restoredP = FALSE, !.last = <<"ShutdownBoot", <<>> >>]
(* the aggregator process dies without shutdown: memory is gone, the database is as it was *)
CrashBootF == [Cur EXCEPT !.reg = FALSE, !.run = None, !.lastP = 0, !.cur = NoTags, !.restoredP = FALSE,
                          !.last = <<"CrashBoot", <<>> >>]

(* ---------------- run messages ---------------- *)
StoreRun(r) == [r EXCEPT !.recentRuns[r.run] = @ + 1]
WithPlotLog(r, id) == IF r.plotLogs[id] = 0 THEN [r EXCEPT !.plotLogs[id] = 1] ELSE r
(* the database also learns which run is open, so that the run survives an aggregator crash *)
Begin(r, id) == WithPlotLog([r EXCEPT !.run = id, !.lastP = 0, !.restoredP = FALSE, !.dbEngine = id], id)

RunStartedF(id) ==
    LET base == [Cur EXCEPT !.last = <<"RunStarted", <<id>> >>,
                            !.announced = IF reg /\ id = engRun /\ recentRuns[id] = 0 THEN id
                                          ELSE IF id = announced THEN announced ELSE None] IN
    IF ~reg THEN base
    ELSE IF recentRuns[id] > 0 THEN base                       \* a late duplicate for a run that is already stored
    ELSE IF run = None THEN Begin(base, id)
    ELSE IF run = id THEN WithPlotLog(base, id)                \* duplicate: idempotent
    ELSE Begin(StoreRun(base), id)                             \* another run is still open: close it, start the new one

RunStoppedF(id) ==
    LET base == [Cur EXCEPT !.last = <<"RunStopped", <<id>> >>, !.announced = None] IN
    IF ~reg \/ run = None THEN base
    ELSE [StoreRun(base) EXCEPT !.run = None, !.lastP = 0, !.restoredP = FALSE, !.dbEngine = None]

(* ---------------- tag updates and plot-log persistence ---------------- *)
(* upd: [S -> 1..MaxT] for a non-empty S \subseteq Tags: tag |-> time of the report (= the value) *)
Max(S) == CHOOSE x \in S : \A y \in S : y <= x
TagsF(msgRun, upd) ==
    LET base == [Cur EXCEPT !.last = <<"Tags", <<msgRun, upd>> >>] IN
    IF ~reg \/ msgRun # run THEN base                      \* not for the run the aggregator has open: not recorded
    ELSE LET cur2 == [g \in Tags |-> IF g \in DOMAIN upd THEN upd[g] ELSE cur[g]] IN
         IF run = None THEN [base EXCEPT !.cur = cur2]
         ELSE LET latest == Max({cur2[g] : g \in Tags})
                  fresh == lastP = 0
                  due == fresh \/ latest - lastP > Interval
                  pick == {g \in Tags : cur2[g] > 0 /\ (fresh \/ cur2[g] > lastP)}
              IN IF ~due \/ pick = {} THEN [base EXCEPT !.cur = cur2]
                 ELSE LET T == Max({cur2[g] : g \in pick})
                          new == {<<g, cur2[g], T>> : g \in pick}
                      IN [base EXCEPT !.cur = cur2, !.lastP = T, !.rows[run] = @ \cup new, !.restoredP = FALSE]

(* ---------------- next-state relation ---------------- *)
EngStart == engRun = None /\ nStarted < Len(Runs) /\ Apply(EngStartF)
EngStop == engRun # None /\ Apply(EngStopF)
Connect == ~reg /\ Apply(ConnectF)
Disconnect == reg /\ Apply(DisconnectF)
ShutdownBoot == Apply(ShutdownBootF)
CrashBoot == Apply(CrashBootF)
DeliverRunStarted(id) == reg /\ id \in Started /\ Apply(RunStartedF(id))
DeliverRunStopped(id) == reg /\ id \in stoppedSet /\ Apply(RunStoppedF(id))
DeliverTags(msgRun, upd) == reg /\ (msgRun = None \/ msgRun \in Started) /\ Apply(TagsF(msgRun, upd))

Updates == UNION {[S -> 1..MaxT] : S \in (SUBSET Tags) \ {{}}}

Init == /\ engRun = None /\ nStarted = 0 /\ stoppedSet = {}
        /\ reg = FALSE /\ run = None /\ lastP = 0 /\ cur = NoTags /\ restoredP = FALSE
        /\ dbEngine = "absent" /\ recentRuns = [r \in RunIds |-> 0] /\ plotLogs = [r \in RunIds |-> 0]
        /\ rows = [r \in RunIds |-> {}] /\ announced = None /\ last = <<"Init", <<>> >>

Next == \/ EngStart \/ EngStop \/ Connect \/ Disconnect \/ ShutdownBoot \/ CrashBoot
        \/ \E id \in RunIds : DeliverRunStarted(id) \/ DeliverRunStopped(id)
        \/ \E msgRun \in RunIds \cup {None}, upd \in Updates : DeliverTags(msgRun, upd)

Spec == Init /\ [][Next]_vars
Bound == TLCGet("level") <= MaxLevel

-----------------------------------------------------------------------------
(* C30 *)
OneRecentRunOnePlotLog == \A r \in RunIds : recentRuns[r] <= 1 /\ plotLogs[r] <= 1
(* C28: while the engine executes a run the aggregator knows about, the aggregator holds that run -- across *)
(* disconnects and restarts (graceful); a stored run has a plot log                                          *)
StoredRunHasPlotLog == \A r \in RunIds : recentRuns[r] > 0 => plotLogs[r] = 1
RowsOnlyInOwnRun == \A r \in RunIds : rows[r] # {} => plotLogs[r] = 1
RestoredRunIsEngineRun ==
    [][(last'[1] = "Connect" /\ run' # None) => run' = dbEngine]_vars
(* C28: once the aggregator has been told about the engine's current run, and no notification about a different run  *)
(* arrives, it holds exactly that run whenever the engine is connected -- across disconnects, shutdowns and crashes.  *)
RunContinues == reg /\ engRun # None /\ announced = engRun => run = engRun
(* C29 *)
RowTimes(r) == {x[3] : x \in rows[r]}
StrictlyIncreasingPerTag ==
    \A r \in RunIds : \A x, y \in rows[r] : x[1] = y[1] /\ x # y => x[3] # y[3]
Throttled == \A r \in RunIds : \A a, b \in RowTimes(r) : a < b => b - a > Interval
NeverOlder == \A r \in RunIds : \A x, y \in rows[r] : x[1] = y[1] /\ x[3] < y[3] => x[2] <= y[2]
Faithful == \A r \in RunIds : \A x \in rows[r] : x[2] <= x[3]
=============================================================================
