CONSTANTS
  NRuns = 2
  Tags = {"A", "B"}
  MaxT = 3
  Interval = 1
  MaxLevel = 7
SPECIFICATION Spec
CONSTRAINT Bound
INVARIANT OneRecentRunOnePlotLog
INVARIANT StoredRunHasPlotLog
INVARIANT RowsOnlyInOwnRun
INVARIANT StrictlyIncreasingPerTag
INVARIANT Throttled
INVARIANT NeverOlder
INVARIANT Faithful
INVARIANT RunContinues
PROPERTY RestoredRunIsEngineRun
CHECK_DEADLOCK FALSE
