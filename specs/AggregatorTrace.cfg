CONSTANTS
  NRuns = 2
  Tags = {"A", "B"}
  MaxT = 3
  Interval = 1
  MaxLevel = 1000
SPECIFICATION TSpec
CHECK_DEADLOCK FALSE
