--------------------------- MODULE AggregatorTrace ---------------------------
(* Validates recorded histories of the real Aggregator (+ handlers, dispatcher, database) against Aggregator (C28-C30). *)
(* Event: [a, id | msgRun, upd, post |-> [reg, run, dbEngine, recentRuns, plotLogs, rows |-> [run |-> <<<<tag,t,T>>>>]]]  *)
EXTENDS Aggregator, TraceLib

VARIABLES tid, l, viols, done
tvars == <<vars, tid, l, viols, done>>
T == Traces[tid].ev

Expected(e) ==
    CASE e.a = "EngStart" -> EngStartF
      [] e.a = "EngStop" -> EngStopF
      [] e.a = "Connect" -> ConnectF
      [] e.a = "Disconnect" -> DisconnectF
      [] e.a = "ShutdownBoot" -> ShutdownBootF
      [] e.a = "CrashBoot" -> CrashBootF
      [] e.a = "RunStarted" -> RunStartedF(e.id)
      [] e.a = "RunStopped" -> RunStoppedF(e.id)
      [] e.a = "Tags" -> TagsF(e.msgRun, e.upd)

RowSet(p, r) == {<<p.rows[r][i][1], p.rows[r][i][2], p.rows[r][i][3]>> : i \in DOMAIN p.rows[r]}
PostRows(p) == [r \in RunIds |-> RowSet(p, r)]

(* where a divergence happens decides its name: the same clause at a different site is a different finding *)
Site(e) ==
    CASE e.a = "RunStarted" /\ reg /\ recentRuns[e.id] > 0 -> "run_started-for-stored-run"
      [] e.a = "RunStarted" /\ reg /\ run = e.id -> "run_started-duplicate"
      [] e.a = "Tags" /\ reg /\ run # None /\ e.msgRun # None /\ e.msgRun # run -> "tags-of-another-run"
      [] e.a = "Tags" /\ restoredP -> "first-tags-after-restore"
      [] e.a = "Connect" /\ last[1] = "CrashBoot" -> "connect-after-crash"
      [] OTHER -> e.a

Clauses(e, x) ==
    LET p == e.post
        rowsP == PostRows(p)
        newRows == [r \in RunIds |-> rowsP[r] \ rows[r]] IN
    << <<"C28.no-raise@" \o Site(e), p.exc = "none">>,
       <<"C28.registered@" \o Site(e), p.reg = x.reg>>,
       <<"C28.active-run@" \o Site(e), p.run = x.run>>,
       <<"C28.recent-engine@" \o Site(e), p.dbEngine = x.dbEngine>>,
       <<"C30.recent-runs@" \o Site(e), \A r \in RunIds : p.recentRuns[r] = x.recentRuns[r]>>,
       <<"C30.plot-logs@" \o Site(e), \A r \in RunIds : p.plotLogs[r] = x.plotLogs[r]>>,
       \* the C30 invariant on the implementation's own database (a divergence elsewhere must not hide it)
       <<"C30.at-most-one-recent-run-and-plot-log@" \o Site(e),
            \A r \in RunIds : (p.recentRuns[r] > recentRuns[r] => p.recentRuns[r] <= 1)
                             /\ (p.plotLogs[r] > plotLogs[r] => p.plotLogs[r] <= 1)>>,
       <<"C28.rows-in-own-run@" \o Site(e), \A r \in RunIds : (rowsP[r] \ rows[r]) # {} => r = x.run \/ r = run>>,
       <<"C29.rows@" \o Site(e), \A r \in RunIds : rowsP[r] = x.rows[r]>>,
       \* the C29 invariants evaluated on the implementation's own rows
       <<"C29.strictly-increasing@" \o Site(e),
            \A r \in RunIds : \A b \in newRows[r] : \A a \in rowsP[r] : a[1] = b[1] /\ a # b => a[3] # b[3]>>,
       <<"C29.throttled@" \o Site(e),
            \A r \in RunIds : \A b \in newRows[r] : \A a \in rows[r] : a[3] < b[3] => b[3] - a[3] > Interval>>,
       <<"C29.not-before-recorded@" \o Site(e),
            \A r \in RunIds : \A b \in newRows[r] : \A a \in rows[r] : a[3] <= b[3]>>,
       <<"C29.never-older@" \o Site(e),
            \A r \in RunIds : \A b \in newRows[r] : \A a \in rows[r] : a[1] = b[1] => a[2] <= b[2]>>,
       <<"C29.faithful@" \o Site(e), \A r \in RunIds : \A a \in newRows[r] : a[2] <= a[3]>>,
       <<"C29.append-only@" \o Site(e), \A r \in RunIds : rows[r] \subseteq rowsP[r]>> >>

Resync(e, x) ==
    LET p == e.post IN
    [x EXCEPT !.reg = p.reg, !.run = p.run, !.dbEngine = p.dbEngine,
              !.recentRuns = [r \in RunIds |-> p.recentRuns[r]], !.plotLogs = [r \in RunIds |-> p.plotLogs[r]],
              !.rows = PostRows(p),
              !.lastP = IF p.run = None THEN 0 ELSE p.lastP,
              !.cur = [g \in Tags |-> p.cur[g]]]

TInit == Init /\ tid \in 1..Len(Traces) /\ l = 1 /\ viols = {} /\ done = FALSE

Step == /\ l <= Len(T)
        /\ LET e == T[l]
               x == Expected(e)
               bad == Failing(Clauses(e, x)) IN
           /\ Apply(IF bad = {} THEN x ELSE Resync(e, x))
           /\ viols' = AddViols(viols, bad, l)
        /\ l' = l + 1 /\ UNCHANGED <<tid, done>>

Finish == /\ l = Len(T) + 1 /\ ~done /\ done' = TRUE /\ Report(Traces[tid].id, l - 1, viols)
          /\ UNCHANGED <<vars, tid, l, viols>>
TSpec == TInit /\ [][Step \/ Finish]_tvars
=============================================================================
