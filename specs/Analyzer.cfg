SPECIFICATION Spec
INVARIANT FlagMeansSomethingIsWrong
