------------------------------- MODULE Analyzer -------------------------------
(***************************************************************************)
(* What the method editor's semantic analysis owes the user (C19, C20).     *)
(*                                                                          *)
(* TLC enumerates instruction lines composed from part pools (the initial   *)
(* states) together with the verdict the analysis must give for that line:  *)
(* `mustFlag` = the line references an undefined tag or command or holds an *)
(* incomplete condition, so an error must be reported on it (C19).  The     *)
(* names are judged against `DefinedTags` / `DefinedCommands`, which the    *)
(* harness checks to be exactly what the engine under test publishes.       *)
(* C20 is the converse obligation: a method the analysis accepts runs       *)
(* without name, argument or unit failures (AnalyzerTrace judges the runs). *)
(***************************************************************************)
EXTENDS Naturals, Sequences, TLC

None == "<none>"
DefinedTags == {"In", "Level", "Out1", "Run Counter", "Block Time"}
DefinedCommands == {"Short", "Set1", "Set2", "Mark", "Wait", "Info"}

\* close misspellings, far, short, missing, and one much longer than any defined name (the "did you mean" search must cope)
TagRefs == DefinedTags \cup {"Inn", "Levle", "Qzqzq", "Qz", "", "Conductivity of the eluate after the second column"}
Ops == {"", ">", "=", "<="}
Values == {"", "5", "2.5"}
Units == {None, "L/h", "L", "s", "L/min", "kg", "xyz"}
CmdRefs == DefinedCommands \cup {"Shrot", "Zzzzzz", "Se", "Foo", "Equilibrate column with five volumes of buffer"}
Args == {None, "5", "5 L/h", "5 kg", "abc", "0.5s"}

VARIABLES kind, parts, line, mustFlag
vars == <<kind, parts, line, mustFlag>>

Opt(prefix, x) == IF x = None THEN "" ELSE prefix \o x
CondText(p) == p.tag \o (IF p.op = "" THEN "" ELSE " " \o p.op) \o (IF p.value = "" THEN "" ELSE " " \o p.value) \o Opt(" ", p.unit)

Cond == [name : {"Watch", "Alarm"}, tag : TagRefs, op : Ops, value : Values, unit : Units]
Sim == [tag : TagRefs, value : Values, unit : Units]
SimOff == [tag : TagRefs]
Cmd == [name : CmdRefs, arg : Args]
(* text the line grammar cannot make an instruction of, or only half of one: the analysis must survive it *)
Junk == {":", ": 5", "    : foo", "-x", "(x): 3", "5", "0.5", "0.5 ", "Watch", "Watch:", "Alarm: ", "Simulate:", "Simulate off:",
         "Mark", "Mark:", "Call macro:", "Call macro: nope", "Macro:", "Block:", "End block: x", "Wait: abc", "Wait:", "Base: zz",
         "1.5 Mark: a # c", "# only a comment", "    ", "Watch: In >", "Watch: > 5", "Alarm: In 5 L/h", "Mark: a: b: c"}
MustFlagJunk == {":", ": 5", "    : foo", "-x", "(x): 3", "Watch", "Watch:", "Alarm: ", "Simulate:", "Watch: In >", "Watch: > 5"}

(* a unit without a value is not a sensible text; an empty operator with a value reads as part of the tag name *)
SensibleCond(p) == (p.value = "" => p.unit = None) /\ (p.op = "" => p.value = "" /\ p.unit = None)

Init == \/ /\ kind = "cond" /\ parts \in {p \in Cond : SensibleCond(p)}
           /\ line = parts.name \o ": " \o CondText(parts)
           /\ mustFlag = (parts.tag \notin DefinedTags \/ parts.op = "" \/ parts.value = "")
        \/ /\ kind = "simulate" /\ parts \in {p \in Sim : p.value = "" => p.unit = None}
           /\ line = "Simulate: " \o parts.tag \o " = " \o parts.value \o Opt(" ", parts.unit)
           /\ mustFlag = (parts.tag \notin DefinedTags \/ parts.value = "")
        \/ /\ kind = "simoff" /\ parts \in SimOff
           /\ line = "Simulate off: " \o parts.tag
           /\ mustFlag = (parts.tag \notin DefinedTags)
        \/ /\ kind = "command" /\ parts \in Cmd
           /\ line = parts.name \o Opt(": ", parts.arg)
           /\ mustFlag = (parts.name \notin DefinedCommands)
        \/ /\ kind = "junk" /\ line \in Junk /\ parts = [text |-> line]
           /\ mustFlag = (line \in MustFlagJunk)
Next == UNCHANGED vars
Spec == Init /\ [][Next]_vars

(* sanity of the enumeration itself *)
FlagMeansSomethingIsWrong ==
    mustFlag => \/ kind \in {"cond", "simulate", "simoff"} /\ (parts.tag \notin DefinedTags \/ (kind = "cond" /\ parts.op = "")
                                                                  \/ (kind # "simoff" /\ parts.value = ""))
                \/ kind = "command" /\ parts.name \notin DefinedCommands
                \/ kind = "junk"
=============================================================================
