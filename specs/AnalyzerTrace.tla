---------------------------- MODULE AnalyzerTrace ----------------------------
(***************************************************************************)
(* Judges recorded runs of the real semantic analysis (lsp_analysis.lint on *)
(* the definitions the engine publishes) and of the real engine (C19, C20). *)
(* Events:                                                                  *)
(*  [e |-> "lint", kinds, lines, offending |-> <<line numbers that must be   *)
(*        flagged>>, errorLines |-> <<line numbers with an error>>, crashed, *)
(*        site]                                                              *)
(*  [e |-> "run", kinds, accepted, failed |-> <<failed line numbers>>,        *)
(*        reasons |-> <<"name" | "argument" | "unit" | "other">>, site]      *)
(***************************************************************************)
EXTENDS Integers, Sequences, FiniteSets, TLC, TraceLib

VARIABLES tid, l, viols, done
tvars == <<tid, l, viols, done>>
T == Traces[tid].ev
SetOfSeq(q) == {q[i] : i \in DOMAIN q}

Clauses(e) ==
    CASE e.e = "lint" ->
           << <<"C19.analysis-completes@" \o e.site, ~e.crashed>>,
              <<"C19.offending-line-flagged@" \o e.site, e.crashed \/ SetOfSeq(e.offending) \subseteq SetOfSeq(e.errorLines)>> >>
      [] e.e = "run" ->
           << <<"C20.accepted-method-runs-clean@" \o e.site,
                e.accepted => SetOfSeq(e.reasons) \cap {"name", "argument", "unit"} = {}>> >>

TInit == tid \in 1..Len(Traces) /\ l = 1 /\ viols = {} /\ done = FALSE
Step == /\ l <= Len(T)
        /\ viols' = AddViols(viols, Failing(Clauses(T[l])), l)
        /\ l' = l + 1 /\ UNCHANGED <<tid, done>>
Finish == /\ l = Len(T) + 1 /\ ~done /\ done' = TRUE /\ Report(Traces[tid].id, l - 1, viols) /\ UNCHANGED <<tid, l, viols>>
TSpec == TInit /\ [][Step \/ Finish]_tvars
=============================================================================
