CONSTANTS
  Chars = {"a", ",", "\\", "\"", ";"}
  MaxCols = 2
  MaxLen = 2
  MaxRows = 1
SPECIFICATION Spec
INVARIANT Rectangular
CHECK_DEADLOCK FALSE
