------------------------------- MODULE Archive -------------------------------
(***************************************************************************)
(* The engine's local run archive (C39) is a table: a header of column     *)
(* names and data rows.  Reading the file back (with the archiver's own    *)
(* dialect) must give, for every row, exactly the header's columns with    *)
(* the archived values unchanged.  Values are character sequences.         *)
(***************************************************************************)
EXTENDS Naturals, Sequences, FiniteSets, TLC

CONSTANTS Chars, MaxCols, MaxLen, MaxRows
VARIABLES header, rows, last
vars == <<header, rows, last>>

Texts == UNION {[1..k -> Chars] : k \in 0..MaxLen}
Init == header = <<>> /\ rows = <<>> /\ last = <<"Init", <<>> >>
Start(n) == header = <<>> /\ header' = [i \in 1..n |-> i] /\ rows' = <<>> /\ last' = <<"Start", <<n>> >>
Row(vals) == /\ header # <<>> /\ Len(rows) < MaxRows /\ Len(vals) = Len(header)
             /\ rows' = Append(rows, vals) /\ last' = <<"Row", <<vals>> >> /\ UNCHANGED header
Next == \/ \E n \in 1..MaxCols : Start(n)
        \/ \E vals \in [1..Len(header) -> Texts] : Row(vals)
Spec == Init /\ [][Next]_vars
Rectangular == \A r \in DOMAIN rows : Len(rows[r]) = Len(header)

(* which hostile character class a row contains: names the way a read-back can go wrong *)
Has(vals, c) == \E i \in DOMAIN vals : \E j \in DOMAIN vals[i] : vals[i][j] = c
Class(vals) == IF Has(vals, "\n") \/ Has(vals, "\r") THEN "newline"
               ELSE IF Has(vals, "\\") THEN "escapechar"
               ELSE IF Has(vals, ",") THEN "delimiter"
               ELSE IF Has(vals, "\"") THEN "quote"
               ELSE "plain"
=============================================================================
