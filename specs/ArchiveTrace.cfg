CONSTANTS
  Chars = {"a"}
  MaxCols = 2
  MaxLen = 2
  MaxRows = 1
SPECIFICATION TSpec
CHECK_DEADLOCK FALSE
