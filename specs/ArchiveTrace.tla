----------------------------- MODULE ArchiveTrace -----------------------------
(* Reads back archives written by the real ArchiverTag (C39).                                                        *)
(* Events: [a |-> "start", cols |-> <<names>>, got |-> <<names read back>>]                                           *)
(*         [a |-> "row", want |-> <<char seqs>>, got |-> <<char seqs>>, nrows |-> lines the row occupies when read]    *)
EXTENDS Archive, TraceLib
VARIABLES tid, l, viols, done, ncols
tvars == <<vars, tid, l, viols, done, ncols>>
T == Traces[tid].ev

Clauses(e) ==
    IF e.a = "start" THEN << <<"C39.header-reads-back", e.cols = e.got>> >>
    ELSE LET cls == Class(e.want) IN
    << <<"C39.one-record-per-row@" \o cls, e.nrows = 1>>,
       <<"C39.row-has-header-columns@" \o cls, e.nrows # 1 \/ Len(e.got) = ncols>>,
       <<"C39.reads-back-unchanged@" \o cls, e.nrows # 1 \/ Len(e.got) # ncols \/ e.got = e.want>> >>

TInit == Init /\ ncols = 0 /\ tid \in 1..Len(Traces) /\ l = 1 /\ viols = {} /\ done = FALSE
Step == /\ l <= Len(T)
        /\ LET e == T[l] IN
           /\ viols' = AddViols(viols, Failing(Clauses(e)), l)
           /\ ncols' = IF e.a = "start" THEN Len(e.cols) ELSE ncols
        /\ l' = l + 1 /\ UNCHANGED <<vars, tid, done>>
Finish == /\ l = Len(T) + 1 /\ ~done /\ done' = TRUE /\ Report(Traces[tid].id, l - 1, viols) /\ UNCHANGED <<vars, tid, l, viols, ncols>>
TSpec == TInit /\ [][Step \/ Finish]_tvars
=============================================================================
