------------------------------- MODULE ArgLang -------------------------------
(***************************************************************************)
(* The documented languages of command-argument patterns (C22), as         *)
(* reference operators over character sequences.                           *)
(*  Number pattern:  ws* number ws* [unit] ws*   where number is           *)
(*    [-]digits | [-]digits.digits* | [-].digits  ("-" only if signed,     *)
(*    no "." forms if integer-only) and unit is one of the declared units  *)
(*    (required when units are declared, absent otherwise).                *)
(*  Categorical pattern: one exclusive option, or a "+"-separated list of  *)
(*    additive options; never empty; trailing whitespace allowed.          *)
(***************************************************************************)
EXTENDS Naturals, Sequences, FiniteSets, TLC

Digit == {"0", "1", "2", "3", "4", "5", "6", "7", "8", "9"}
WS == {" ", "\t", "\n"}
AllIn(s, S) == \A i \in DOMAIN s : s[i] \in S
Sub(s, i, j) == SubSeq(s, i, j)

IsUnsigned(s, intOnly) ==
    \/ Len(s) >= 1 /\ AllIn(s, Digit)
    \/ /\ ~intOnly
       /\ \E k \in DOMAIN s : /\ s[k] = "."
                              /\ AllIn(Sub(s, 1, k - 1), Digit) /\ AllIn(Sub(s, k + 1, Len(s)), Digit)
                              /\ (k > 1 \/ k < Len(s))
IsNumber(s, nonneg, intOnly) ==
    \/ IsUnsigned(s, intOnly)
    \/ ~nonneg /\ Len(s) >= 2 /\ s[1] = "-" /\ IsUnsigned(Tail(s), intOnly)

(* rest = ws* unit ws*  (unit = <<>> stands for "no unit") *)
RestIsUnit(rest, u) ==
    \E a \in 0..Len(rest) : \E b \in a..Len(rest) :
        /\ AllIn(Sub(rest, 1, a), WS) /\ Sub(rest, a + 1, b) = u /\ AllIn(Sub(rest, b + 1, Len(rest)), WS)

(* all parses <<number, unit>> of s; units = set of character sequences, {} = pattern without unit part *)
NumberParses(s, nonneg, intOnly, units) ==
    { <<Sub(s, i, j), u>> : <<i, j, u>> \in
        { t \in (1..Len(s)) \X (1..Len(s)) \X (IF units = {} THEN {<<>>} ELSE units) :
            /\ t[1] <= t[2]
            /\ AllIn(Sub(s, 1, t[1] - 1), WS)
            /\ IsNumber(Sub(s, t[1], t[2]), nonneg, intOnly)
            /\ RestIsUnit(Sub(s, t[2] + 1, Len(s)), t[3]) } }

(* number without unit although units were declared: the statement says "optionally followed by" a unit, the pattern's
   documentation requires one -- such strings are not judged *)
BareNumber(s, nonneg, intOnly) == NumberParses(s, nonneg, intOnly, {}) # {}

(* ---- categorical ---- *)
RECURSIVE StripWS(_)
StripWS(s) == IF s # <<>> /\ s[Len(s)] \in WS THEN StripWS(Sub(s, 1, Len(s) - 1)) ELSE s

StartsWith(s, p) == Len(p) <= Len(s) /\ Sub(s, 1, Len(p)) = p

RECURSIVE IsPlusList(_, _)
IsPlusList(s, add) ==
    \E a \in add : \/ s = a
                   \/ /\ StartsWith(s, a \o <<"+">>)
                      /\ IsPlusList(Sub(s, Len(a) + 2, Len(s)), add)

CatAccepts(s, excl, add) == LET v == StripWS(s) IN v # <<>> /\ (v \in excl \/ IsPlusList(v, add))

(* the shape of a string that is NOT in the documented language (used to name deviations precisely) *)
RECURSIVE IsSoup(_, _)
IsSoup(s, add) == s = <<>> \/ \E a \in add \cup {<<"+">>} : StartsWith(s, a) /\ IsSoup(Sub(s, Len(a) + 1, Len(s)), add)
HasDoublePlus(s) == \E i \in 1..(Len(s) - 1) : s[i] = "+" /\ s[i + 1] = "+"
Shape(s, excl, add) ==
    LET v == StripWS(s) IN
    IF v = <<>> THEN "empty"
    ELSE IF ~IsSoup(v, add) THEN "other"
    ELSE IF v[1] = "+" THEN "leading-plus"
    ELSE IF HasDoublePlus(v) THEN "double-plus"
    ELSE "juxtaposed"
=============================================================================
