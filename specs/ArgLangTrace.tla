---------------------------- MODULE ArgLangTrace ----------------------------
(* Checks re.search(<pattern built by RegexNumber / RegexCategorical>, s) against ArgLang (C22).                    *)
(* number case:  [k |-> "num", s, nonneg, intOnly, units |-> <<unit char seqs>>, m |-> "none" | [number, unit]]      *)
(* categorical:  [k |-> "cat", s, excl, add, m |-> "none" | [option]]                                               *)
(* derived lists: [k |-> "lists", what, built, derived, cls]                                                        *)
EXTENDS ArgLang, TraceLib

VARIABLES tid, l, viols, done
tvars == <<tid, l, viols, done>>
T == Traces[tid].ev
SetOf(q) == {q[i] : i \in DOMAIN q}

NumClauses(e) ==
    LET units == SetOf(e.units)
        P == NumberParses(e.s, e.nonneg, e.intOnly, units)
        judged == ~(units # {} /\ P = {} /\ BareNumber(e.s, e.nonneg, e.intOnly))
        sfx == IF e.intOnly THEN "int" ELSE IF e.nonneg THEN "nonneg" ELSE "signed" IN
    << <<"C22.num-unique-parse", Cardinality(P) <= 1>>,
       <<"C22.num-accepts-documented@" \o sfx, P = {} \/ e.m.hit>>,
       <<"C22.num-rejects-others@" \o sfx, ~judged \/ P # {} \/ ~e.m.hit>>,
       <<"C22.num-delivers-unchanged@" \o sfx,
            P = {} \/ ~e.m.hit \/ \E p \in P : e.m.number = p[1] /\ e.m.unit = p[2]>> >>

CatClauses(e) ==
    LET excl == SetOf(e.excl) add == SetOf(e.add)
        doc == CatAccepts(e.s, excl, add) IN
    << <<"C22.cat-accepts-documented", ~doc \/ e.m.hit>>,
       <<"C22.cat-rejects-others@" \o Shape(e.s, excl, add), doc \/ ~e.m.hit>>,
       <<"C22.cat-delivers-unchanged", ~doc \/ ~e.m.hit \/ e.m.option = StripWS(e.s)>> >>

ListClauses(e) == << <<"C22.derived-" \o e.what \o "@" \o e.cls, e.built = e.derived>> >>

Clauses(e) == CASE e.k = "num" -> NumClauses(e) [] e.k = "cat" -> CatClauses(e) [] OTHER -> ListClauses(e)

TInit == tid \in 1..Len(Traces) /\ l = 1 /\ viols = {} /\ done = FALSE
Step == /\ l <= Len(T) /\ viols' = AddViols(viols, Failing(Clauses(T[l])), l) /\ l' = l + 1 /\ UNCHANGED <<tid, done>>
Finish == /\ l = Len(T) + 1 /\ ~done /\ done' = TRUE /\ Report(Traces[tid].id, l - 1, viols) /\ UNCHANGED <<tid, l, viols>>
TSpec == TInit /\ [][Step \/ Finish]_tvars
=============================================================================
