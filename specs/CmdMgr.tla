------------------------------- MODULE CmdMgr -------------------------------
(***************************************************************************)
(* Tick-exact model of CommandManager (openpectus/engine/command_manager.py)*)
(* together with the Start / Stop / Restart command bodies                  *)
(* (internal_commands_impl.py), for commands requested by the user.         *)
(*                                                                          *)
(* The structure follows the code, not the intent:                          *)
(*  - requests made between two ticks are validated against the System      *)
(*    State tag and queued; at the beginning of a tick the queue is moved   *)
(*    to the FRONT of the executing list, one by one (the newest first);    *)
(*  - the tick loops over the executing list, skipping requests marked done *)
(*    earlier in the tick; a UOD request first cancels every other request  *)
(*    of the same name, then every overlapping one; _cancel_command finds   *)
(*    the command instance BY NAME, finalizes it and marks the request it   *)
(*    was given (not the owner of the instance) as done;                    *)
(*  - Stop and Restart are generators: phase A cancels all, phase B (next   *)
(*    tick) cancels all again, ends the run and REPLACES the command        *)
(*    manager (only a pending Restart request is handed to the new one),    *)
(*    while the old manager's loop goes on over its own list; Restart has   *)
(*    a phase C (one more tick) that starts the new run;                    *)
(*  - commands live in the uod's instance table, keyed by name.             *)
(*                                                                          *)
(* TickTo(st, reqs) is a function: the model is stepped by TLC over all     *)
(* request sequences (design check) and in lock-step with the real engine   *)
(* (CmdMgrLockTrace.tla: every variable is compared after every tick).      *)
(* SecondCancel = FALSE gives the code before fix e60c335a (expected        *)
(* violation of NoOrphanInstance, CmdMgrAsCoded.cfg).                       *)
(***************************************************************************)
EXTENDS Integers, Sequences, FiniteSets, TLC

CONSTANTS MaxTicks, MaxReq, SecondCancel

Uod == {"Short", "Long", "Forever", "OvA", "OvB", "OvC", "Loop1"}      \* Loop1 never completes and writes its iteration count to Out1
Ctl == {"Start", "Stop", "Restart", "Pause", "Unpause", "Hold", "Unhold"}
Dur(n) == CASE n = "Short" -> 1 [] n = "Long" -> 4 [] n \in {"Forever", "Loop1"} -> 0 [] OTHER -> 5     \* 0: never completes by itself
\* the uod declares two overlap lists that share OvB: [OvA, OvB] and [OvB, OvC] (OvA and OvC do not overlap); also true for a = b
Overlap(a, b) == \E g \in {{"OvA", "OvB"}, {"OvB", "OvC"}} : {a, b} \subseteq g

NoInst == [rid |-> 0, k |-> 0, iter |-> 0]
NoCmd == [rid |-> 0, phase |-> 0]

Fresh == [execL |-> <<>>,                          \* the current manager's cmd_executing: <<[rid, name]>>, newest first
          inst |-> [n \in Uod |-> NoInst],          \* uod.command_instances: owner request, ordinal of the instance for that name, iterations
          made |-> [n \in Uod |-> 0],               \* instances created so far per name
          stop |-> NoCmd, restart |-> NoCmd,        \* the running Stop / Restart command (registry), its request and generator phase
          pend |-> 0,                               \* restart_request_pending of the current manager (a request id)
          started |-> FALSE, stopping |-> FALSE, paused |-> FALSE, holding |-> FALSE, state |-> "Stopped",
          out |-> 0,                                \* the output tag Out1 (safe value 0; the engine starts with the safe values applied)
          prev |-> -1,                              \* Engine._prev_state: the output captured by Pause, -1 = none
          hw |-> 0,                                 \* what the hardware register of Out1 holds (last write)
          nextRid |-> 1,
          hooks |-> <<>>,                           \* init / exec / finalize calls of the last tick, in order: <<hook, name, k>>
          acc |-> <<>>,                             \* which of the requests before the last tick were accepted
          ended |-> FALSE,                          \* a run ended in the last tick
          bad |-> FALSE]                            \* a hook call broke the command protocol

(* ---- validation of a request against the System State tag (Engine._validate_control_command) ---------------- *)
Valid(name, s) ==
    LET live == s.state \notin {"Stopped", "Restarting"} IN
    CASE name = "Start" -> s.state = "Stopped"
      [] name \in {"Stop", "Restart"} -> live
      [] name = "Pause" -> live /\ ~s.paused
      [] name = "Unpause" -> live /\ s.paused
      [] name = "Hold" -> live /\ ~s.holding
      [] name = "Unhold" -> live /\ s.holding
      [] OTHER -> TRUE

(* ---- the loop state: st plus what the tick accumulates -------------------------------------------------------- *)
\* a.done: requests marked done in this tick; a.swapped / a.newL: the manager was replaced, the new manager's list
Hook(a, h, n, k) == [a EXCEPT !.hooks = Append(@, <<h, n, k>>)]

(* _cancel_command(o, finalize=True) *)
CancelReq(a, o) ==
    IF o.name \in Uod
    THEN IF a.inst[o.name].rid # 0
         THEN [Hook(a, "finalize", o.name, a.inst[o.name].k) EXCEPT !.inst[o.name] = NoInst, !.done = @ \cup {o.rid}]
         ELSE IF o.rid \in a.done THEN a
         ELSE [a EXCEPT !.done = @ \cup {o.rid}]                 \* no instance yet: the request is dropped
    ELSE IF o.name = "Stop" /\ a.stop.rid # 0 THEN [a EXCEPT !.stop = NoCmd, !.done = @ \cup {o.rid}]
    ELSE IF o.name = "Restart" /\ a.restart.rid # 0 THEN [a EXCEPT !.restart = NoCmd, !.done = @ \cup {o.rid}]
    ELSE a                                                       \* "Could not cancel command request": it stays

RECURSIVE CancelSeq(_, _, _, _, _)
\* cancel the other requests of list L[i..] that are not done (currently_executing) and have c's name (mode "same") or a name
\* overlapping it (mode "overlap"), one after the other
CancelSeq(a, L, i, c, mode) ==
    IF i > Len(L) THEN a
    ELSE LET o == L[i]
             hit == o.rid # c.rid /\ o.rid \notin a.done /\ (IF mode = "same" THEN o.name = c.name ELSE Overlap(o.name, c.name))
         IN CancelSeq(IF hit THEN CancelReq(a, o) ELSE a, L, i + 1, c, mode)

RECURSIVE CancelAllFrom(_, _, _, _)
\* cancel_commands(source, finalize=True): every request of the list, done or not, whose name is not the source's
CancelAllFrom(a, L, i, src) ==
    IF i > Len(L) THEN a
    ELSE IF L[i].name # src THEN CancelAllFrom(CancelReq(a, L[i]), L, i + 1, src)
    ELSE CancelAllFrom(a, L, i + 1, src)

(* _execute_uod_command(c) *)
ExecUod(a, L, c) ==
    LET a1 == CancelSeq(a, L, 1, c, "same")
        a2 == CancelSeq(a1, L, 1, c, "overlap")
        a3 == IF a2.inst[c.name].rid = 0
              THEN [Hook(a2, "init", c.name, a2.made[c.name] + 1)
                      EXCEPT !.made[c.name] = @ + 1, !.inst[c.name] = [rid |-> c.rid, k |-> a2.made[c.name] + 1, iter |-> 0]]
              ELSE a2
        k == a3.inst[c.name].k
        a4 == [Hook(a3, "exec", c.name, k) EXCEPT !.inst[c.name].iter = @ + 1,
                                                  !.out = IF c.name = "Loop1" THEN a3.inst[c.name].iter + 1 ELSE @]
    IN IF Dur(c.name) # 0 /\ a4.inst[c.name].iter >= Dur(c.name)
       THEN [Hook(a4, "finalize", c.name, k) EXCEPT !.inst[c.name] = NoInst, !.done = @ \cup {c.rid}]
       ELSE a4

(* the run ends: second half of Stop and of Restart; the command manager is replaced *)
EndRun(a, L, src, newL) ==
    LET b == IF SecondCancel THEN CancelAllFrom(a, L, 1, src) ELSE a IN
    \* _apply_safe_state and write_process_image while the run still counts as started
    [b EXCEPT !.started = FALSE, !.stopping = FALSE, !.paused = FALSE, !.holding = FALSE, !.state = "Stopped",
              !.out = 0, !.hw = 0, !.swapped = TRUE, !.newL = newL, !.ended = TRUE]

(* _execute_internal_command(c) *)
ExecCtl(a, L, c) ==
    CASE c.name = "Start" ->
            IF a.started THEN [a EXCEPT !.done = @ \cup {c.rid}]                            \* fails
            ELSE [a EXCEPT !.started = TRUE, !.paused = FALSE, !.holding = FALSE, !.state = "Running", !.done = @ \cup {c.rid}]
      \* the four (untimed) run-state commands complete in the tick in which they execute; none of them looks at `started`
      \* Pause puts the outputs to their safe values and keeps what they were (unless a pause already holds a capture);
      \* Unpause puts the captured values back
      [] c.name = "Pause" -> [a EXCEPT !.paused = TRUE, !.state = "Paused", !.out = 0,
                                       !.prev = IF ~a.paused \/ a.prev = -1 THEN a.out ELSE @, !.done = @ \cup {c.rid}]
      [] c.name = "Unpause" -> [a EXCEPT !.paused = FALSE, !.state = IF a.holding THEN "Holding" ELSE "Running",
                                         !.out = IF a.prev # -1 THEN a.prev ELSE @, !.prev = -1, !.done = @ \cup {c.rid}]
      [] c.name = "Hold" -> [a EXCEPT !.holding = TRUE, !.state = IF a.paused THEN @ ELSE "Holding", !.done = @ \cup {c.rid}]
      [] c.name = "Unhold" -> [a EXCEPT !.holding = FALSE, !.state = IF a.paused THEN @ ELSE "Running", !.done = @ \cup {c.rid}]
      [] c.name = "Stop" ->
            IF a.stop.rid # 0
            THEN IF a.stop.rid # c.rid THEN [a EXCEPT !.done = @ \cup {c.rid}]             \* duplicate request dropped
                 ELSE \* phase B
                      LET b == EndRun(a, L, "Stop", IF a.pend = 0 THEN <<>> ELSE <<[rid |-> a.pend, name |-> "Restart"]>>) IN
                      [b EXCEPT !.stop = NoCmd, !.done = @ \cup {c.rid}]
            ELSE IF a.state \in {"Stopped", "Restarting"} THEN [a EXCEPT !.done = @ \cup {c.rid}]     \* fails
            ELSE [CancelAllFrom([a EXCEPT !.stopping = TRUE], L, 1, "Stop") EXCEPT !.stop = [rid |-> c.rid, phase |-> 1]]
      [] OTHER ->  \* Restart
            IF a.restart.rid # 0
            THEN IF a.restart.rid # c.rid THEN [a EXCEPT !.done = @ \cup {c.rid}]
                 ELSE IF a.restart.phase = 1
                 THEN [EndRun(a, L, "Restart", <<c>>) EXCEPT !.restart.phase = 2]
                 ELSE [a EXCEPT !.started = TRUE, !.paused = FALSE, !.holding = FALSE, !.state = "Running", !.restart = NoCmd,
                                !.done = @ \cup {c.rid}]
            ELSE LET p == [a EXCEPT !.pend = c.rid] IN               \* restart_request_pending is set when the command is created
                 IF a.state \in {"Stopped", "Restarting"} THEN [p EXCEPT !.done = @ \cup {c.rid}]     \* fails
                 ELSE [CancelAllFrom([p EXCEPT !.stopping = TRUE, !.state = "Restarting"], L, 1, "Restart")
                         EXCEPT !.restart = [rid |-> c.rid, phase |-> 1]]

RECURSIVE Loop(_, _, _)
Loop(a, L, i) ==
    IF i > Len(L) THEN a
    ELSE IF L[i].rid \in a.done THEN Loop(a, L, i + 1)
    ELSE Loop(IF L[i].name \in Uod THEN ExecUod(a, L, L[i]) ELSE ExecCtl(a, L, L[i]), L, i + 1)

RECURSIVE Accept(_, _, _)
\* requests between two ticks: validated in order (the state does not change between them), accepted ones get a request id
Accept(s, reqs, i) ==
    IF i > Len(reqs) THEN s
    ELSE IF Valid(reqs[i], s)
    THEN Accept([s EXCEPT !.execL = <<[rid |-> s.nextRid, name |-> reqs[i]]>> \o @, !.nextRid = @ + 1, !.acc = Append(@, TRUE)], reqs, i + 1)
    ELSE Accept([s EXCEPT !.acc = Append(@, FALSE)], reqs, i + 1)

Keep(L, done) == SelectSeq(L, LAMBDA r : r.rid \notin done)

TickTo(st, reqs) ==
    LET s0 == Accept([st EXCEPT !.acc = <<>>, !.hooks = <<>>, !.ended = FALSE], reqs, 1)
        L == s0.execL
        a0 == [inst |-> s0.inst, made |-> s0.made, stop |-> s0.stop, restart |-> s0.restart, pend |-> s0.pend, started |-> s0.started,
               stopping |-> s0.stopping, paused |-> s0.paused, holding |-> s0.holding, state |-> s0.state,
               out |-> s0.out, prev |-> s0.prev, hw |-> s0.hw, hooks |-> <<>>, done |-> {}, swapped |-> FALSE, newL |-> <<>>, ended |-> FALSE]
        a == Loop(a0, L, 1)
    IN [s0 EXCEPT !.execL = IF a.swapped THEN a.newL ELSE Keep(L, a.done),
                  !.inst = a.inst, !.made = a.made, !.stop = a.stop, !.restart = a.restart,
                  !.pend = IF a.swapped THEN 0 ELSE a.pend,        \* a new manager starts without a pending restart of its own
                  !.started = a.started, !.stopping = a.stopping, !.paused = a.paused, !.holding = a.holding, !.state = a.state,
                  !.out = a.out, !.prev = a.prev,
                  \* write_process_image at the end of the tick, only while a run is active
                  !.hw = IF a.started THEN a.out ELSE a.hw,
                  !.hooks = a.hooks, !.ended = a.ended]

(* ---- design check ------------------------------------------------------------------------------------------------ *)
VARIABLES st, tickNo
vars == <<st, tickNo>>
Alphabet == Uod \cup Ctl
ReqSeqs == {<<>>} \cup {<<x>> : x \in Alphabet} \cup {<<x, y>> : x \in Alphabet, y \in Alphabet}

Init == st = Fresh /\ tickNo = 0
Next == /\ tickNo < MaxTicks
        /\ \E reqs \in ReqSeqs : st.nextRid + Len(reqs) <= MaxReq + 1 /\ st' = TickTo(st, reqs)
        /\ tickNo' = tickNo + 1
Spec == Init /\ [][Next]_vars

(* C10: when Stop or Restart has ended the run, no command holds an instance *)
NoInstanceWhenRunEnds == st.ended => \A n \in Uod : st.inst[n].rid = 0
(* C10/C11: an instance always belongs to a request that is still executing: otherwise it never executes or finalizes again *)
NoOrphanInstance == \A n \in Uod : st.inst[n].rid # 0 => \E i \in DOMAIN st.execL : st.execL[i].rid = st.inst[n].rid
(* C11: overlapping commands never hold instances together; the hooks of a tick follow the life cycle *)
NoOverlapTogether == \A a, b \in Uod : (a # b /\ Overlap(a, b)) => ~(st.inst[a].rid # 0 /\ st.inst[b].rid # 0)
HookOrder ==
    \A i \in DOMAIN st.hooks :
        LET h == st.hooks[i] IN
        /\ h[1] = "init" => ~\E j \in 1..(i - 1) : st.hooks[j][2] = h[2] /\ st.hooks[j][3] = h[3]
        /\ h[1] = "finalize" => ~\E j \in (i + 1)..Len(st.hooks) : st.hooks[j][2] = h[2] /\ st.hooks[j][3] = h[3]
        /\ h[1] = "finalize" => Cardinality({j \in DOMAIN st.hooks : st.hooks[j] = h}) = 1
        /\ h[1] = "exec" => Cardinality({j \in DOMAIN st.hooks : st.hooks[j] = h}) = 1        \* one execution per instance and tick
(* C06 *)
StoppedIffNoRun == (st.state = "Stopped") = ~st.started
StateMatchesFlags == st.started => st.state \in {IF st.paused THEN "Paused" ELSE IF st.holding THEN "Holding" ELSE "Running", "Restarting"}
FlagsOnlyInARun == ~st.started => ~st.paused /\ ~st.holding
(* C08 *)
SafeWhenNoRun == ~st.started => st.hw = 0
\* NOT an invariant of the code (recorded finding C08.safe-while-paused@command-keeps-writing): commands go on executing while
\* the run is paused, and Loop1 overwrites the safe value. Checked in CmdMgrAsCoded.cfg, where it must be violated.
SafeWhilePaused == st.started /\ st.paused => st.hw = 0
(* C09 *)
CaptureOnlyWhilePaused == st.prev # -1 => st.paused \/ ~st.started
ControlCommandsEnd == st.stop.rid # 0 \/ st.restart.rid # 0 => st.started \/ st.restart.phase = 2
=============================================================================
