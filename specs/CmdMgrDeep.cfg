CONSTANTS
  MaxTicks = 9
  MaxReq = 6
  SecondCancel = TRUE
SPECIFICATION Spec
INVARIANT NoInstanceWhenRunEnds
INVARIANT NoOrphanInstance
INVARIANT NoOverlapTogether
INVARIANT HookOrder
INVARIANT StoppedIffNoRun
CHECK_DEADLOCK FALSE
