CONSTANTS
  MaxTicks = 7
  MaxReq = 5
  SecondCancel = TRUE
SPECIFICATION Spec
INVARIANT NoInstanceWhenRunEnds
INVARIANT NoOrphanInstance
INVARIANT NoOverlapTogether
INVARIANT HookOrder
INVARIANT StoppedIffNoRun
INVARIANT StateMatchesFlags
INVARIANT FlagsOnlyInARun
INVARIANT SafeWhenNoRun
CHECK_DEADLOCK FALSE
