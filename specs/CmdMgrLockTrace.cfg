CONSTANTS
  MaxTicks = 99
  MaxReq = 999
  SecondCancel = TRUE
SPECIFICATION TSpec
CHECK_DEADLOCK FALSE
