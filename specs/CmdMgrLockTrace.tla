--------------------------- MODULE CmdMgrLockTrace ---------------------------
(***************************************************************************)
(* Lock-step conformance of the real engine (Engine.tick + CommandManager + *)
(* the Start/Stop/Restart commands + the instrumented UOD) with CmdMgr.tla. *)
(* A trace is one engine run: ev = one event per tick,                      *)
(*   [reqs, acc, hooks, inst, execL, started, stopping, state, err]         *)
(* the user's requests before the tick (names, in order), which of them the *)
(* engine accepted, and the implementation's state after the tick:          *)
(*   hooks  the init/exec/finalize calls the UOD received, in order, as     *)
(*          <<hook, name, k>> with k = ordinal of that instance per name;   *)
(*   inst   the names in uod.command_instances (sorted);                    *)
(*   execL  the names in the current command manager's cmd_executing;       *)
(*   started, stopping, paused, holding, state (System State tag), err.     *)
(* The model is stepped with the same requests (CmdMgr!TickTo); the first   *)
(* disagreement of a run is reported under the property that owns the       *)
(* variable, later ticks of that run are not judged.                        *)
(***************************************************************************)
EXTENDS CmdMgr, TraceLib

VARIABLES tid, l, viols, done, diverged
tvars == <<vars, tid, l, viols, done, diverged>>
T == Traces[tid].ev
SetOfSeq(q) == {q[i] : i \in DOMAIN q}

Names(L) == [i \in DOMAIN L |-> L[i].name]
Hooks(q) == [i \in DOMAIN q |-> <<q[i][1], q[i][2], q[i][3]>>]

Clauses(m, e) ==
    << <<"C06.lockstep-gating", m.acc = e.acc>>,
       <<"C06.lockstep-run-state", m.started = e.started /\ m.state = e.state>>,
       <<"C06.lockstep-pause-hold-flags", m.paused = e.paused /\ m.holding = e.holding>>,
       <<"C08.lockstep-output-and-hardware", m.out = e.out /\ m.hw = e.hw>>,
       <<"C09.lockstep-captured-output", m.prev = e.prev>>,
       <<"C10.lockstep-stopping", m.stopping = e.stopping>>,
       <<"C10.lockstep-instances", {n \in Uod : m.inst[n].rid # 0} = SetOfSeq(e.inst)>>,
       <<"C10.lockstep-executing-list", Names(m.execL) = e.execL>>,
       <<"C11.lockstep-hook-calls", m.hooks = Hooks(e.hooks)>>,
       <<"C13.lockstep-no-error-state", ~e.err>> >>

TInit == /\ tid \in 1..Len(Traces) /\ st = Fresh /\ tickNo = 0
         /\ l = 1 /\ viols = {} /\ done = FALSE /\ diverged = FALSE

Step == /\ l <= Len(T)
        /\ LET e == T[l] m == TickTo(st, e.reqs) bad == Failing(Clauses(m, e)) IN
           /\ st' = m /\ tickNo' = tickNo + 1
           /\ viols' = IF diverged THEN viols ELSE AddViols(viols, bad, l)
           /\ diverged' = (diverged \/ bad # {})
        /\ l' = l + 1 /\ UNCHANGED <<tid, done>>
Finish == /\ l = Len(T) + 1 /\ ~done /\ done' = TRUE /\ Report(Traces[tid].id, l - 1, viols)
          /\ UNCHANGED <<vars, tid, l, viols, diverged>>
TSpec == TInit /\ [][Step \/ Finish]_tvars
=============================================================================
