CONSTANTS
  MaxTicks = 6
  MaxReq = 4
  SecondCancel = TRUE
SPECIFICATION Spec
INVARIANT SafeWhilePaused
CHECK_DEADLOCK FALSE
