CONSTANTS
  Names = {"Long", "OvA", "OvB", "OvC"}
  Overlap = {{"OvA", "OvB"}, {"OvB", "OvC"}}
  MaxReq = 4
  MaxLevel = 9
SPECIFICATION Spec
CONSTRAINT Bound
INVARIANT NoTwoConflictingExecuting
INVARIANT InitOnceBeforeExec
INVARIANT FinalizeExactlyOnce
INVARIANT NoInstanceAfterStop
CHECK_DEADLOCK FALSE
