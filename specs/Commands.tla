------------------------------- MODULE Commands -------------------------------
(***************************************************************************)
(* UOD command life cycle in the command manager (C10, C11, C12).          *)
(* A request creates an instance of a named command; requesting a command  *)
(* first cancels (and finalizes) an executing instance of the same name    *)
(* and of every overlapping name.  An instance is initialized once before  *)
(* its first execution, executes once per tick until it completes, fails,  *)
(* is cancelled by the user or by Stop/Restart, and is finalized exactly   *)
(* once.  After Stop / Restart no instance is left.                        *)
(***************************************************************************)
EXTENDS Naturals, FiniteSets, Sequences, TLC

CONSTANTS Names, Overlap, MaxReq, MaxLevel    \* Overlap: set of sets of names that may not execute together

VARIABLES inst,      \* [Names -> 0 | instance id]  the executing instance of each command (0 = none)
          phase,     \* [ids -> "requested" | "executing" | "done"]  for every id ever issued
          calls,     \* [ids -> [init, exec, fin]] number of calls of the three hooks
          nextId, last
vars == <<inst, phase, calls, nextId, last>>

Ids == 1..MaxReq
Conflicts(a, b) == a = b \/ \E g \in Overlap : a \in g /\ b \in g

Finalized(c, id) == [c EXCEPT ![id].fin = @ + 1]

(* cancel + finalize the executing instances of all names conflicting with n *)
CancelConflicting(n) ==
    LET victims == {m \in Names : inst[m] # 0 /\ Conflicts(m, n)} IN
    [i |-> [m \in Names |-> IF m \in victims THEN 0 ELSE inst[m]],
     p |-> [id \in Ids |-> IF \E m \in victims : inst[m] = id THEN "done" ELSE phase[id]],
     c |-> [id \in Ids |-> IF \E m \in victims : inst[m] = id /\ calls[id].init > 0 THEN [calls[id] EXCEPT !.fin = @ + 1] ELSE calls[id]]]

Request(n) ==
    /\ nextId <= MaxReq
    /\ LET r == CancelConflicting(n) IN
       /\ inst' = [r.i EXCEPT ![n] = nextId]
       /\ phase' = [r.p EXCEPT ![nextId] = "requested"]
       /\ calls' = r.c
    /\ nextId' = nextId + 1 /\ last' = <<"Request", <<n>> >>

(* one tick of an executing instance; outcome: "more" | "complete" | "fail" *)
Exec(n, outcome) ==
    /\ inst[n] # 0
    /\ LET id == inst[n]
           c1 == IF calls[id].init = 0 THEN [calls[id] EXCEPT !.init = 1] ELSE calls[id]
           c2 == [c1 EXCEPT !.exec = @ + 1] IN
       IF outcome = "more"
       THEN /\ calls' = [calls EXCEPT ![id] = c2] /\ phase' = [phase EXCEPT ![id] = "executing"] /\ inst' = inst
       ELSE /\ calls' = [calls EXCEPT ![id] = [c2 EXCEPT !.fin = @ + 1]]
            /\ phase' = [phase EXCEPT ![id] = "done"] /\ inst' = [inst EXCEPT ![n] = 0]
    /\ last' = <<"Exec", <<n, outcome>> >> /\ UNCHANGED nextId

UserCancel(n) ==
    /\ inst[n] # 0
    /\ LET id == inst[n] IN
       /\ calls' = IF calls[id].init > 0 THEN [calls EXCEPT ![id].fin = @ + 1] ELSE calls
       /\ phase' = [phase EXCEPT ![id] = "done"] /\ inst' = [inst EXCEPT ![n] = 0]
    /\ last' = <<"UserCancel", <<n>> >> /\ UNCHANGED nextId

StopAll ==
    /\ calls' = [id \in Ids |-> IF \E n \in Names : inst[n] = id /\ calls[id].init > 0 THEN [calls[id] EXCEPT !.fin = @ + 1] ELSE calls[id]]
    /\ phase' = [id \in Ids |-> IF \E n \in Names : inst[n] = id THEN "done" ELSE phase[id]]
    /\ inst' = [n \in Names |-> 0]
    /\ last' = <<"StopAll", <<>> >> /\ UNCHANGED nextId

Init == /\ inst = [n \in Names |-> 0] /\ phase = [id \in Ids |-> "none"]
        /\ calls = [id \in Ids |-> [init |-> 0, exec |-> 0, fin |-> 0]] /\ nextId = 1 /\ last = <<"Init", <<>> >>
Next == \/ \E n \in Names : Request(n) \/ UserCancel(n)
        \/ \E n \in Names, o \in {"more", "complete", "fail"} : Exec(n, o)
        \/ StopAll
Spec == Init /\ [][Next]_vars
Bound == TLCGet("level") <= MaxLevel

(* C11 *)
NoTwoConflictingExecuting == \A a, b \in Names : a # b /\ inst[a] # 0 /\ inst[b] # 0 => ~Conflicts(a, b)
InitOnceBeforeExec == \A id \in Ids : calls[id].init <= 1 /\ (calls[id].exec > 0 => calls[id].init = 1)
FinalizeExactlyOnce == \A id \in Ids : /\ calls[id].fin <= 1
                                       /\ (phase[id] = "done" /\ calls[id].init = 1 => calls[id].fin = 1)
                                       /\ (phase[id] \in {"requested", "executing"} => calls[id].fin = 0)
(* C10 *)
NoInstanceAfterStop == last[1] = "StopAll" => \A n \in Names : inst[n] = 0
=============================================================================
