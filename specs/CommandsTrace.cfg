CONSTANT OverlapGroups = {{"OvA", "OvB"}, {"OvB", "OvC"}}
SPECIFICATION TSpec
CHECK_DEADLOCK FALSE
