CONSTANT OverlapGroups = {{"OvA", "OvB"}}
SPECIFICATION TSpec
CHECK_DEADLOCK FALSE
