---------------------------- MODULE CommandsTrace ----------------------------
(***************************************************************************)
(* Monitor for the UOD command life cycle, Stop/Restart clean-up and        *)
(* cancel/force requests on recorded engine runs (C10 C11 C12).             *)
(* Events:                                                                  *)
(*  [e |-> "init" | "exec" | "finalize", name, inst, t]                      *)
(*  [e |-> "req", k |-> "cancel" | "force", item, node, offered, res,          *)
(*        unchanged, kind, target, runId]  kind: class of the item ("uod",    *)
(*        "watch", "pause", "hold", "wait", "threshold", "other")            *)
(*  [e |-> "runStopped", open |-> <<names of UOD items not conclusive>>]     *)
(*  [e |-> "tickEnd", t, started, paused, holding, runId, inst, simulated,   *)
(*        bodyStarted |-> <<watch node ids whose body started this tick>>,   *)
(*        proceededEver |-> <<node ids that proceeded in this run>>,         *)
(*        firstLine  |-> first method line started in this tick ("" none)]   *)
(***************************************************************************)
EXTENDS Integers, Sequences, FiniteSets, TLC, TraceLib

CONSTANT OverlapGroups      \* set of sets of command names

VARIABLES inited, execed, finalized,   \* sets of instance ids
          tickExec,                    \* <<name, inst>> pairs that executed in the current tick
          cancelledWatch,              \* watch item ids cancelled (accepted)
          mustFinalize,                \* uod instance ids whose cancel was accepted: must be finalized by the next tick end
          mustUnpause, mustUnhold,     \* a timed Pause / Hold was cancelled: must have ended by the next tick end
          otherPause, otherHold,       \* the user has (also) paused / held this run: the state is not only the timed command's
          forced,                      \* item id -> tick of the accepted force
          p,                           \* previous tickEnd
          newRun,                      \* a new run has begun and its first line has not been seen yet
          seen,                        \* witnesses: antecedents of clauses that held at least once (vacuity guard)
          tid, l, viols, done
mvars == <<inited, execed, finalized, tickExec, cancelledWatch, mustFinalize, mustUnpause, mustUnhold, otherPause, otherHold,
          forced, p, newRun>>
tvars == <<mvars, seen, tid, l, viols, done>>
T == Traces[tid].ev
SetOfSeq(q) == {q[i] : i \in DOMAIN q}
Conflicts(a, b) == a = b \/ \E g \in OverlapGroups : a \in g /\ b \in g

CmdClauses(e) ==
    CASE e.e = "init" ->
            << <<"C11.init-once" \o e.site, e.inst \notin inited>>,
               <<"C11.init-before-exec" \o e.site, e.inst \notin execed>> >>
      [] e.e = "exec" ->
            << <<"C11.init-before-exec" \o e.site, e.inst \in inited>>,
               <<"C11.no-exec-after-finalize" \o e.site, e.inst \notin finalized>>,
               <<"C11.one-instance-per-name-per-tick", \A x \in tickExec : x[1] = e.name => x[2] = e.inst>>,
               <<"C11.no-overlapping-exec-per-tick", \A x \in tickExec : x[1] # e.name => ~Conflicts(x[1], e.name)>> >>
      [] e.e = "finalize" ->
            << <<"C11.finalize-once" \o e.site, e.inst \notin finalized>>,
               <<"C11.finalize-needs-init" \o e.site, e.inst \in inited>> >>

ReqClauses(e) ==
    << <<"C12.accepted-iff-offered@" \o e.k \o "-" \o e.kind, (e.res = "ok") = e.offered>>,
       <<"C12.rejected-changes-nothing@" \o e.k, e.res = "ok" \/ e.unchanged>> >>

RunEnded(e) == p.t >= 0 /\ p.started /\ (~e.started \/ e.runId # p.runId)

ForceDue(f, e) == /\ f[1] \notin SetOfSeq(e.forcedDead)      \* its block was ended after the force: it must not proceed any more
                  /\ p.t >= f[2] + 1 /\ p.started /\ ~p.paused /\ ~p.holding /\ p.runId = e.runId
                  /\ e.started /\ ~e.paused /\ ~e.holding /\ f[3] = e.runId

TickClauses(e) ==
    << <<"C11.finalized-when-run-ends", RunEnded(e) => inited \subseteq finalized>>,
       <<"C10.no-instance-left", RunEnded(e) /\ ~e.started => e.inst = <<>> >>,
       <<"C10.simulations-cleared", RunEnded(e) /\ ~e.started => e.simulated = <<>> >>,
       <<"C10.run-id-cleared", RunEnded(e) /\ ~e.started => e.runId = 0>>,
       <<"C10.restart-from-first-line", newRun /\ e.firstLine # "" => e.firstLine = "L1">>,
       \* (a cancel belongs to one invocation: a Watch in an alarm or macro body that was reset since runs again in the next one)
       <<"C12.cancelled-watch-never-runs", SetOfSeq(e.bodyStarted) \cap (cancelledWatch \ SetOfSeq(e.resetNow)) = {}>>,
       <<"C12.cancelled-command-finalized", mustFinalize \subseteq finalized>>,
       <<"C12.cancelled-pause-ends", mustUnpause /\ ~otherPause => ~e.paused \/ e.err>>,
       <<"C12.cancelled-hold-ends", mustUnhold /\ ~otherHold => ~e.holding>>,
       \* (a Watch that was forced right after its first visit still has its registration tick before its first turn as an
       \*  interrupt, exactly like an unforced Watch whose condition already holds: one more tick)
       <<"C12.force-proceeds",     \* two tick boundaries at which the run progresses after the force: the interpreter ran in between
         \A f \in forced : (f[4] = "" /\ ForceDue(f, e)) => f[1] \in SetOfSeq(e.proceededEver)>>,
       \* the forced item belongs to an earlier invocation of its line (alarm or macro body run again since): the item was
       \* never concluded, is still offered, and the accepted force is lost when the line is reset for the new invocation
       <<"C12.force-proceeds@item-of-earlier-invocation",
         \A f \in forced : (f[4] # "" /\ ForceDue(f, e)) => f[1] \in SetOfSeq(e.proceededEver)>> >>

(* which antecedents hold at this event (evaluated in the state before the event) *)
Witness(e) ==
    CASE e.e = "req" ->
            (IF e.res = "ok" THEN {e.k \o "-accepted:" \o e.kind} ELSE {}) \cup
            (IF e.res # "ok" /\ ~e.offered THEN {"not-offered-rejected"} ELSE {}) \cup
            (IF e.k = "cancel" /\ e.res = "ok" /\ e.cls = "WatchNode" THEN {"watch-cancel-accepted"} ELSE {})
      [] e.e = "tickEnd" ->
            (IF cancelledWatch # {} THEN {"tick-with-cancelled-watch"} ELSE {}) \cup
            (IF mustFinalize # {} THEN {"tick-after-uod-cancel"} ELSE {}) \cup
            (IF mustUnpause /\ ~otherPause THEN {"tick-after-pause-cancel"} ELSE {}) \cup
            (IF mustUnhold /\ ~otherHold THEN {"tick-after-hold-cancel"} ELSE {}) \cup
            (IF \E f \in forced : ForceDue(f, e) THEN {"force-due"} ELSE {}) \cup
            (IF forced # {} THEN {"tick-with-accepted-force-not-yet-proceeded"} ELSE {}) \cup
            (IF RunEnded(e) THEN {"run-ended"} ELSE {}) \cup
            (IF RunEnded(e) /\ inited # {} THEN {"run-ended-with-commands"} ELSE {}) \cup
            (IF newRun /\ e.firstLine # "" THEN {"restarted-first-line"} ELSE {})
      [] e.e = "runStopped" -> {"run-stopped-message"}
      [] e.e = "exec" -> (IF \E x \in tickExec : x[1] # e.name THEN {"two-commands-in-one-tick"} ELSE {})
      [] OTHER -> {}

NoPrev == [t |-> -1]
TInit == /\ inited = {} /\ execed = {} /\ finalized = {} /\ tickExec = {} /\ cancelledWatch = {} /\ mustFinalize = {}
         /\ mustUnpause = FALSE /\ mustUnhold = FALSE /\ otherPause = FALSE /\ otherHold = FALSE /\ forced = {} /\ p = NoPrev /\ newRun = FALSE
         /\ tid \in 1..Len(Traces) /\ l = 1 /\ viols = {} /\ done = FALSE /\ seen = {}

Step ==
    /\ l <= Len(T)
    /\ LET e == T[l] IN
       CASE e.e \in {"init", "exec", "finalize"} ->
              /\ viols' = AddViols(viols, Failing(CmdClauses(e)), l)
              /\ inited' = IF e.e = "init" THEN inited \cup {e.inst} ELSE inited
              /\ execed' = IF e.e = "exec" THEN execed \cup {e.inst} ELSE execed
              /\ finalized' = IF e.e = "finalize" THEN finalized \cup {e.inst} ELSE finalized
              /\ tickExec' = IF e.e = "exec" THEN tickExec \cup {<<e.name, e.inst>>} ELSE tickExec
              /\ UNCHANGED <<cancelledWatch, mustFinalize, mustUnpause, mustUnhold, otherPause, otherHold, forced, p, newRun>>
         [] e.e = "ctl" ->
              /\ otherPause' = (otherPause \/ e.name = "Pause") /\ otherHold' = (otherHold \/ e.name = "Hold")
              /\ UNCHANGED <<viols, inited, execed, finalized, tickExec, cancelledWatch, mustFinalize, mustUnpause, mustUnhold, forced, p, newRun>>
         [] e.e = "req" ->
              /\ viols' = AddViols(viols, Failing(ReqClauses(e)), l)
              \* (the kind of an accepted cancel is already "watch-after-cancel": it is named after the request took effect)
              /\ cancelledWatch' = IF e.k = "cancel" /\ e.res = "ok" /\ e.cls = "WatchNode" THEN cancelledWatch \cup {e.node} ELSE cancelledWatch
              /\ mustFinalize' = IF e.k = "cancel" /\ e.res = "ok" /\ e.kind = "uod" /\ e.target \in inited
                                 THEN mustFinalize \cup {e.target} ELSE mustFinalize
              /\ mustUnpause' = (mustUnpause \/ (e.k = "cancel" /\ e.res = "ok" /\ e.kind = "pause"))
              /\ mustUnhold' = (mustUnhold \/ (e.k = "cancel" /\ e.res = "ok" /\ e.kind = "hold"))
              /\ forced' = IF e.k = "force" /\ e.res = "ok" /\ e.kind \in {"watch", "wait", "threshold"}
                           THEN forced \cup {<<e.node, e.t + (IF e.kind = "watch" THEN 1 ELSE 0), e.runId, IF e.stale THEN "stale" ELSE "">>} ELSE forced
              /\ UNCHANGED <<inited, execed, finalized, tickExec, p, newRun, otherPause, otherHold>>
         [] e.e = "runStopped" ->
              /\ viols' = AddViols(viols, Failing(<< <<"C10.run-log-producible", e.exc = "none">>,
                                                    <<"C10.run-log-closes-every-uod-command@" \o e.site, e.open = <<>> >> >>), l)
              /\ UNCHANGED mvars
         [] OTHER ->   \* tickEnd
              /\ viols' = AddViols(viols, Failing(TickClauses(e)), l)
              /\ tickExec' = {} /\ p' = e
              /\ mustFinalize' = {} /\ mustUnpause' = FALSE /\ mustUnhold' = FALSE
              /\ forced' = {f \in forced : f[1] \notin SetOfSeq(e.proceededEver) /\ f[1] \notin SetOfSeq(e.forcedDead) /\ f[3] = e.runId}
              /\ newRun' = IF p.t >= 0 /\ e.runId # 0 /\ e.runId # p.runId /\ p.runId # 0 THEN TRUE
                           ELSE IF e.runId # 0 /\ (p.t < 0 \/ p.runId = 0) THEN TRUE
                           ELSE IF e.firstLine # "" \/ ~e.started THEN FALSE ELSE newRun
              /\ IF RunEnded(e) THEN inited' = {} /\ execed' = {} /\ finalized' = {} /\ cancelledWatch' = {}
                                      /\ otherPause' = FALSE /\ otherHold' = FALSE
                 ELSE /\ cancelledWatch' = cancelledWatch \ SetOfSeq(e.resetNow)
                      /\ UNCHANGED <<inited, execed, finalized, otherPause, otherHold>>
    /\ l' = l + 1 /\ seen' = seen \cup Witness(T[l]) /\ UNCHANGED <<tid, done>>

Finish == /\ l = Len(T) + 1 /\ ~done /\ done' = TRUE /\ ReportW(Traces[tid].id, l - 1, viols, seen) /\ UNCHANGED <<mvars, seen, tid, l, viols>>
TSpec == TInit /\ [][Step \/ Finish]_tvars
=============================================================================
