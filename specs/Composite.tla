------------------------------ MODULE Composite ------------------------------
(***************************************************************************)
(* Composite hardware (C25): registers are assigned to hardware layers; a   *)
(* batch read/write on the composite is split per layer and reassembled.    *)
(* The design models the split-and-reassemble algorithm (operators Grouped...) next to  *)
(* the reference meaning "each register on its own layer, in batch order"  *)
(* (operators Direct...) and TLC checks they agree for every assignment, order and      *)
(* value.  The trace spec compares the real Composite_Hardware with Direct....**)
(***************************************************************************)
EXTENDS Naturals, Sequences, FiniteSets, TLC

CONSTANTS Reg, Layer, Val, MaxLen, MaxOps

VARIABLES assign,   \* [Reg -> Layer], fixed per behaviour
          mem,      \* [Layer -> [Reg -> value]] : every layer has a cell for every register name
          last,     \* <<op, args, result, agree>> history, read by invariants and the replay harness
          nops         \* number of batch operations so far (bounds the exploration)

vars == <<assign, mem, last, nops>>

Seqs(S, n) == UNION {[1..k -> S] : k \in 1..n}
NoDup(s) == \A i, j \in DOMAIN s : i # j => s[i] # s[j]

InitVal(l, r) == l \o "." \o r       \* distinct content per (layer, register) so a read from the wrong layer shows

(* ---- reference: one register at a time on its own layer ---- *)
DirectRead(seq) == [i \in DOMAIN seq |-> mem[assign[seq[i]]][seq[i]]]

RECURSIVE DirectWrite(_, _, _)
DirectWrite(m, seq, vals) ==
    IF seq = <<>> THEN m
    ELSE LET r == Head(seq) l == assign[r] IN
         DirectWrite([m EXCEPT ![l][r] = Head(vals)], Tail(seq), Tail(vals))

(* ---- the composite algorithm: split per layer (keeping batch order), one batch per layer, reassemble ---- *)
SubIdx(seq, l) == {i \in DOMAIN seq : assign[seq[i]] = l}
RECURSIVE SortedSeq(_)
SortedSeq(S) == IF S = {} THEN <<>> ELSE LET m == CHOOSE x \in S : \A y \in S : x <= y IN <<m>> \o SortedSeq(S \ {m})
LayerBatch(seq, l) == LET idx == SortedSeq(SubIdx(seq, l)) IN [k \in DOMAIN idx |-> seq[idx[k]]]
LayerVals(seq, vals, l) == LET idx == SortedSeq(SubIdx(seq, l)) IN [k \in DOMAIN idx |-> vals[idx[k]]]

GroupedRead(seq) ==
    LET res(l) == [k \in DOMAIN LayerBatch(seq, l) |-> mem[l][LayerBatch(seq, l)[k]]]
        pos(i) == Cardinality({j \in SubIdx(seq, assign[seq[i]]) : j <= i})
    IN [i \in DOMAIN seq |-> res(assign[seq[i]])[pos(i)]]

RECURSIVE LayerWrite(_, _, _)
LayerWrite(cells, regs, vals) ==
    IF regs = <<>> THEN cells ELSE LayerWrite([cells EXCEPT ![Head(regs)] = Head(vals)], Tail(regs), Tail(vals))
GroupedWrite(seq, vals) ==
    [l \in Layer |-> LayerWrite(mem[l], LayerBatch(seq, l), LayerVals(seq, vals, l))]

(* last[4]: did the split-and-reassemble algorithm agree with the reference on this operation *)
ReadBatch(seq) == /\ last' = <<"Read", <<seq>>, DirectRead(seq), GroupedRead(seq) = DirectRead(seq)>>
                  /\ nops' = nops + 1 /\ UNCHANGED <<assign, mem>>
WriteBatch(seq, vals) == /\ mem' = DirectWrite(mem, seq, vals)
                         /\ last' = <<"Write", <<seq, vals>>, <<>>, GroupedWrite(seq, vals) = DirectWrite(mem, seq, vals)>>
                         /\ nops' = nops + 1 /\ UNCHANGED assign

Init == /\ assign \in [Reg -> Layer]
        /\ mem = [l \in Layer |-> [r \in Reg |-> InitVal(l, r)]]
        /\ last = <<"Init", <<>>, <<>>, TRUE>> /\ nops = 0

Next == /\ nops < MaxOps
        /\ \/ \E seq \in Seqs(Reg, MaxLen) : ReadBatch(seq)
           \/ \E seq \in {s \in Seqs(Reg, MaxLen) : NoDup(s)} : \E vals \in [DOMAIN seq -> Val] : WriteBatch(seq, vals)

Spec == Init /\ [][Next]_vars

(* C25: the split-and-reassemble algorithm is transparent *)
Transparent == last[4]
OnlyOwnLayerChanges ==
    [][\A l \in Layer, r \in Reg : mem'[l][r] # mem[l][r] => assign[r] = l]_vars
=============================================================================
