CONSTANTS
  Reg = {"r1", "r2", "r3"}
  Layer = {"L1", "L2", "L3"}
  Val = {"a", "b"}
  MaxLen = 3
  MaxOps = 2
SPECIFICATION Spec
INVARIANT Transparent
PROPERTY OnlyOwnLayerChanges
CHECK_DEADLOCK FALSE
