CONSTANTS
  Reg = {"r1", "r2", "r3", "r4"}
  Layer = {"L1", "L2", "L3", "L4"}
  Val = {"a", "b"}
  MaxLen = 3
  MaxOps = 100
SPECIFICATION TSpec
CHECK_DEADLOCK FALSE
