--------------------------- MODULE CompositeTrace ---------------------------
(* Validates recorded batch operations of the real Composite_Hardware against Composite (C25).                 *)
(* Trace: [id, assign |-> [Reg -> Layer], ev |-> <<[a |-> "read", seq, ret] | [a |-> "write", seq, vals, mem]>>] *)
EXTENDS Composite, TraceLib

VARIABLES tid, l, viols, done
tvars == <<vars, tid, l, viols, done>>

T == Traces[tid].ev

TInit == /\ tid \in 1..Len(Traces) /\ l = 1 /\ viols = {} /\ done = FALSE
         /\ assign = [r \in Reg |-> Traces[tid].assign[r]]
         /\ mem = [la \in Layer |-> [r \in Reg |-> InitVal(la, r)]]
         /\ last = <<"Init", <<>>, <<>>, TRUE>> /\ nops = 0

Logged(e) == [la \in Layer |-> [r \in Reg |-> e.mem[la][r]]]

Step == /\ l <= Len(T)
        /\ LET e == T[l] IN
           IF e.a = "read"
           THEN /\ viols' = AddViols(viols, Failing(<< <<"C25.no-raise@read", e.exc = "none">>,
                                        <<"C25.read-values", e.exc # "none" \/ e.ret = DirectRead(e.seq)>> >>), l)
                /\ UNCHANGED mem
           ELSE LET exp == DirectWrite(mem, e.seq, e.vals) IN
                /\ viols' = AddViols(viols, Failing(<< <<"C25.no-raise@write", e.exc = "none">>,
                                       <<"C25.write-memory", Logged(e) = exp>>,
                                       <<"C25.only-own-layer",
                                         \A la \in Layer, r \in Reg : Logged(e)[la][r] # mem[la][r] => assign[r] = la>> >>), l)
                /\ mem' = Logged(e)          \* continue from the implementation's memory
        /\ l' = l + 1 /\ nops' = nops + 1 /\ UNCHANGED <<assign, last, tid, done>>

Finish == /\ l = Len(T) + 1 /\ ~done /\ done' = TRUE
          /\ Report(Traces[tid].id, l - 1, viols)
          /\ UNCHANGED <<vars, tid, l, viols>>

TSpec == TInit /\ [][Step \/ Finish]_tvars
=============================================================================
