CONSTANTS
  Reg = {"r1", "r2", "r3", "r4"}
  Layer = {"L1", "L2", "L3", "L4"}
  Val = {"a", "b"}
  MaxLen = 3
  MaxOps = 1
SPECIFICATION Spec
INVARIANT Transparent
PROPERTY OnlyOwnLayerChanges
CHECK_DEADLOCK FALSE
