CONSTANTS
  Tags = {"A", "B"}
  Times = {1, 2, 3}
  MaxSamples = 3
SPECIFICATION Spec
INVARIANT RowsStrictlyIncreasing
INVARIANT NoFutureValue
INVARIANT HoldsUntilNext
CHECK_DEADLOCK FALSE
