------------------------------- MODULE CsvHold -------------------------------
(***************************************************************************)
(* CSV export of a recorded run (C34): a sample-and-hold table.            *)
(* A plot log maps each tag to the sequence of its recorded samples        *)
(* <<time, value>> in recording order (not necessarily sorted).  The table *)
(* has one row per distinct sample time, in increasing order; the cell of  *)
(* tag g at row time t is the latest sample of g with time <= t (among     *)
(* samples with equal time the one recorded last), or Empty.               *)
(***************************************************************************)
EXTENDS Naturals, Sequences, FiniteSets, TLC

CONSTANTS Tags, Times, MaxSamples
Empty == ""

VARIABLE log     \* [Tags -> Seq(<<time, value>>)]

(* every sample gets a value naming its tag and position, so a cell shows which sample it came from *)
Val(g, i) == g \o "#" \o ToString(i)
Init == log \in [Tags -> UNION {[1..k -> Times] : k \in 0..MaxSamples}]
Next == UNCHANGED log
Spec == Init /\ [][Next]_log

Samples(lg, g) == [i \in DOMAIN lg[g] |-> <<lg[g][i], Val(g, i)>>]

AllTimes(lg) == UNION {{lg[g][i] : i \in DOMAIN lg[g]} : g \in Tags}

RECURSIVE SortSet(_)
SortSet(S) == IF S = {} THEN <<>> ELSE LET m == CHOOSE x \in S : \A y \in S : x <= y IN <<m>> \o SortSet(S \ {m})

Hold(lg, g, t) ==
    LET I == {i \in DOMAIN lg[g] : lg[g][i] <= t} IN
    IF I = {} THEN Empty
    ELSE LET best == CHOOSE i \in I : \A j \in I : lg[g][j] < lg[g][i] \/ (lg[g][j] = lg[g][i] /\ j <= i) IN Val(g, best)

(* the table: sequence of rows, each row a function Tags -> cell *)
Table(lg) == LET ts == SortSet(AllTimes(lg)) IN [r \in DOMAIN ts |-> [g \in Tags |-> Hold(lg, g, ts[r])]]

(* design laws *)
RowsStrictlyIncreasing == LET ts == SortSet(AllTimes(log)) IN \A r \in 1..(Len(ts) - 1) : ts[r] < ts[r + 1]
NoFutureValue == \A g \in Tags : \A r \in DOMAIN Table(log) :
                    LET t == SortSet(AllTimes(log))[r] IN
                    Table(log)[r][g] = Empty \/ \E i \in DOMAIN log[g] : Val(g, i) = Table(log)[r][g] /\ log[g][i] <= t
HoldsUntilNext == \A g \in Tags : \A r \in DOMAIN Table(log) :
                    LET t == SortSet(AllTimes(log))[r] IN
                    (\E i \in DOMAIN log[g] : log[g][i] <= t) => Table(log)[r][g] # Empty
=============================================================================
