CONSTANTS
  Tags = {"A", "B", "C"}
  Times = {1, 2, 3, 4}
  MaxSamples = 2
SPECIFICATION Spec
INVARIANT RowsStrictlyIncreasing
INVARIANT NoFutureValue
INVARIANT HoldsUntilNext
CHECK_DEADLOCK FALSE
