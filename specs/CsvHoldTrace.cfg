CONSTANTS
  Tags = {"A", "B", "C"}
  Times = {1, 2, 3, 4}
  MaxSamples = 3
SPECIFICATION TSpec
CHECK_DEADLOCK FALSE
