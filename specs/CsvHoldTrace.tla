---------------------------- MODULE CsvHoldTrace ----------------------------
(* Checks CSV exports produced by the real generate_csv_string against CsvHold!Table (C34).                         *)
(* Trace = one export: [id, ev |-> << [log |-> [tag |-> <<times>>], tags |-> <<column order>>, rows |-> <<<<cells>>>>, exc] >>] *)
EXTENDS CsvHold, TraceLib

VARIABLES tid, l, viols, done
tvars == <<log, tid, l, viols, done>>
T == Traces[tid].ev

Clauses(e) ==
    LET lg == [g \in Tags |-> IF g \in DOMAIN e.log THEN e.log[g] ELSE <<>>]
        want == Table(lg)
        cols == e.tags
        ok == e.exc = "none"
        sameRows == Len(e.rows) = Len(want)
        Cell(r, g) == LET c == CHOOSE k \in DOMAIN cols : cols[k] = g IN e.rows[r][c] IN
    << <<"C34.no-raise", ok>>,
       <<"C34.one-row-per-distinct-time", ~ok \/ sameRows>>,
       <<"C34.empty-before-first-sample", ~ok \/ ~sameRows \/
            \A r \in DOMAIN want : \A g \in Tags : g \in DOMAIN e.log /\ want[r][g] = Empty => Cell(r, g) = Empty>>,
       <<"C34.latest-value-at-or-before", ~ok \/ ~sameRows \/
            \A r \in DOMAIN want : \A g \in Tags : g \in DOMAIN e.log /\ want[r][g] # Empty => Cell(r, g) = want[r][g]>> >>

TInit == /\ tid \in 1..Len(Traces) /\ l = 1 /\ viols = {} /\ done = FALSE /\ log = [g \in Tags |-> <<>>]
Step == /\ l <= Len(T) /\ viols' = AddViols(viols, Failing(Clauses(T[l])), l)
        /\ l' = l + 1 /\ UNCHANGED <<log, tid, done>>
Finish == /\ l = Len(T) + 1 /\ ~done /\ done' = TRUE /\ Report(Traces[tid].id, l - 1, viols)
          /\ UNCHANGED <<log, tid, l, viols>>
TSpec == TInit /\ [][Step \/ Finish]_tvars
=============================================================================
