CONSTANTS
  Names = {"a", "b_c"}
  MaxLevel = 6
SPECIFICATION Spec
CONSTRAINT Bound
INVARIANT IdsInjective
INVARIANT NoTakeover
CHECK_DEADLOCK FALSE
