------------------------------ MODULE EngineIds ------------------------------
(***************************************************************************)
(* Engine identity (C38).  An engine is the pair <<computer, uod>>; the     *)
(* aggregator derives an id from it.  Ids must be injective, and a          *)
(* registration for an id whose engine is connected is refused.             *)
(* The design uses the pair itself as id (trivially injective); the trace   *)
(* spec checks the ids the real aggregator hands out.                       *)
(***************************************************************************)
EXTENDS Naturals, Sequences, FiniteSets, TLC

CONSTANTS Names, MaxLevel

VARIABLES connected,   \* set of engines (pairs) with a live websocket
          registered,  \* engines with engine data
          known,       \* engines that have registered at some time: they keep their id and may reconnect without registering
          last         \* <<action, args, accepted>>
vars == <<connected, registered, known, last>>

Id(p) == p

RegisterF(p) == LET ok == ~\E q \in connected : Id(q) = Id(p) IN
                [connected |-> connected, registered |-> IF ok THEN registered \cup {p} ELSE registered,
                 last |-> <<"Register", <<p[1], p[2]>>, ok>>]
ConnectF(p) == [connected |-> connected \cup {p}, registered |-> registered, last |-> <<"Connect", <<p[1], p[2]>>, TRUE>>]
DisconnectF(p) == [connected |-> connected \ {p}, registered |-> registered \ {p}, last |-> <<"Disconnect", <<p[1], p[2]>>, TRUE>>]
Apply(n) == /\ connected' = n.connected /\ registered' = n.registered /\ last' = n.last
            /\ known' = IF n.last[1] = "Register" /\ n.last[3] THEN known \cup {<<n.last[2][1], n.last[2][2]>>} ELSE known

Init == connected = {} /\ registered = {} /\ known = {} /\ last = <<"Init", <<>>, TRUE>>
Next == \/ \E p \in Names \X Names : Apply(RegisterF(p))
        \* (also after a dropped websocket, when the engine data is gone: connected but not registered)
        \/ \E p \in known \ connected : Apply(ConnectF(p))
        \/ \E p \in connected : Apply(DisconnectF(p))
Spec == Init /\ [][Next]_vars
Bound == TLCGet("level") <= MaxLevel

IdsInjective == \A p, q \in registered \cup connected : Id(p) = Id(q) => p = q
NoTakeover == last[1] = "Register" /\ <<last[2][1], last[2][2]>> \in connected => ~last[3]
=============================================================================
