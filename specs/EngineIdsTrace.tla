---------------------------- MODULE EngineIdsTrace ----------------------------
(* C38 on the real aggregator.  Events:                                                                               *)
(*   [a |-> "id", c, u, id]                     the id create_engine_id gives to <<computer, uod>>                      *)
(*   [a |-> "register", c, u, id, ok]           a registration attempt and whether it was accepted                     *)
(*   [a |-> "connect" | "disconnect", c, u, id] websocket of that engine                                               *)
EXTENDS Naturals, Sequences, FiniteSets, TLC, TraceLib

VARIABLES seen,       \* set of <<c, u, id>> handed out so far
          conn,       \* ids currently connected, with their owner: set of <<c, u, id>>
          tid, l, viols, done
tvars == <<seen, conn, tid, l, viols, done>>
T == Traces[tid].ev

(* two different pairs collide because the separator "_" is ambiguous iff their plain concatenations are equal *)
SepAmbiguous(x, e) == x[1] \o "_" \o x[2] = e.c \o "_" \o e.u

Clauses(e) ==
    LET clash == {x \in seen : x[3] = e.id /\ (x[1] # e.c \/ x[2] # e.u)}
        amb == \A x \in clash : SepAmbiguous(x, e)
        takeover == \E x \in conn : x[3] = e.id IN
    << <<"C38.ids-injective@" \o (IF amb THEN "separator-in-name" ELSE "other"), clash = {}>>,
       <<"C38.same-engine-same-id", \A x \in seen : x[1] = e.c /\ x[2] = e.u => x[3] = e.id>>,
       <<"C38.no-takeover", e.a # "register" \/ ~takeover \/ ~e.ok>>,
       <<"C38.register-accepted-when-free", e.a # "register" \/ takeover \/ e.ok>> >>

TInit == seen = {} /\ conn = {} /\ tid \in 1..Len(Traces) /\ l = 1 /\ viols = {} /\ done = FALSE
Step == /\ l <= Len(T)
        /\ LET e == T[l] IN
           /\ viols' = AddViols(viols, Failing(Clauses(e)), l)
           /\ seen' = seen \cup {<<e.c, e.u, e.id>>}
           /\ conn' = CASE e.a = "connect" -> conn \cup {<<e.c, e.u, e.id>>}
                        [] e.a = "disconnect" -> {x \in conn : x[3] # e.id}
                        [] OTHER -> conn
        /\ l' = l + 1 /\ UNCHANGED <<tid, done>>
Finish == /\ l = Len(T) + 1 /\ ~done /\ done' = TRUE /\ Report(Traces[tid].id, l - 1, viols) /\ UNCHANGED <<seen, conn, tid, l, viols>>
TSpec == TInit /\ [][Step \/ Finish]_tvars
=============================================================================
