CONSTANTS
  Msgs = {"a", "b"}
  Sevs = {1, 2}
  Times = {1, 2, 3}
  MaxLen = 3
SPECIFICATION Spec
INVARIANT NothingLost
INVARIANT BatchingIrrelevant
INVARIANT OrderKept
CHECK_DEADLOCK FALSE
