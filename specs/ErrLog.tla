------------------------------- MODULE ErrLog -------------------------------
(***************************************************************************)
(* Error-log aggregation (C35).  Engine error-log entries [msg, sev, t]    *)
(* arrive in batches and are folded into an aggregated log of              *)
(* [msg, sev, t, n]: a consecutive entry with the same message and         *)
(* severity and a later time is merged (n + 1, latest time); with an       *)
(* identical time it is a redelivered duplicate; anything else is a new    *)
(* entry.  (An entry older than the one it would merge with is not         *)
(* generated: the statement gives it no meaning.)                          *)
(***************************************************************************)
EXTENDS Naturals, Sequences, FiniteSets, TLC

CONSTANTS Msgs, Sevs, Times, MaxLen

Entry == [msg : Msgs, sev : Sevs, t : Times]
Same(a, e) == a.msg = e.msg /\ a.sev = e.sev

MergeOne(log, e) ==
    IF log # <<>> /\ Same(log[Len(log)], e)
    THEN LET last == log[Len(log)] IN
         IF e.t > last.t THEN [log EXCEPT ![Len(log)] = [last EXCEPT !.t = e.t, !.n = last.n + 1]]
         ELSE log
    ELSE Append(log, [msg |-> e.msg, sev |-> e.sev, t |-> e.t, n |-> 1])

RECURSIVE Merge(_, _)
Merge(log, batch) == IF batch = <<>> THEN log ELSE Merge(MergeOne(log, Head(batch)), Tail(batch))

(* number of entries of a batch that are redelivered duplicates when folded into log *)
RECURSIVE Dups(_, _)
Dups(log, batch) ==
    IF batch = <<>> THEN 0
    ELSE LET e == Head(batch)
             d == IF log # <<>> /\ Same(log[Len(log)], e) /\ e.t = log[Len(log)].t THEN 1 ELSE 0
         IN d + Dups(MergeOne(log, e), Tail(batch))

(* admissible input: never older than the entry it would merge with *)
RECURSIVE Admissible(_, _)
Admissible(log, batch) ==
    IF batch = <<>> THEN TRUE
    ELSE LET e == Head(batch) IN
         /\ ~(log # <<>> /\ Same(log[Len(log)], e) /\ e.t < log[Len(log)].t)
         /\ Admissible(MergeOne(log, e), Tail(batch))

RECURSIVE SumN(_)
SumN(log) == IF log = <<>> THEN 0 ELSE Head(log).n + SumN(Tail(log))

RECURSIVE Collapse(_)
Collapse(s) == IF Len(s) <= 1 THEN s
               ELSE IF Same(s[1], s[2]) THEN Collapse(Tail(s)) ELSE <<s[1]>> \o Collapse(Tail(s))
Keys(s) == [i \in DOMAIN s |-> <<s[i].msg, s[i].sev>>]

VARIABLES input, split      \* the entries in delivery order and where the first batch ends
Init == /\ input \in UNION {[1..k -> Entry] : k \in 0..MaxLen}
        /\ split \in 0..MaxLen /\ split <= Len(input)
        /\ Admissible(<<>>, input)
Next == UNCHANGED <<input, split>>
Spec == Init /\ [][Next]_<<input, split>>

B1 == SubSeq(input, 1, split)
B2 == SubSeq(input, split + 1, Len(input))
Result == Merge(Merge(<<>>, B1), B2)

NothingLost == SumN(Result) + Dups(<<>>, input) = Len(input)
BatchingIrrelevant == Result = Merge(<<>>, input)
OrderKept == Keys(Result) = Keys(Collapse(input))
=============================================================================
