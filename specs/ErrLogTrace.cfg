CONSTANTS
  Msgs = {"a", "b"}
  Sevs = {1, 2}
  Times = {1, 2, 3}
  MaxLen = 4
SPECIFICATION TSpec
CHECK_DEADLOCK FALSE
