----------------------------- MODULE ErrLogTrace -----------------------------
(* Checks the real AggregatedErrorLog.aggregate_with against ErrLog!Merge (C35).                                     *)
(* Trace = one case: ev = << [b1 |-> <<entries>>, b2 |-> <<entries>>, after1 |-> <<agg>>, after2 |-> <<agg>>, exc] >> *)
EXTENDS ErrLog, TraceLib

VARIABLES tid, l, viols, done
tvars == <<input, split, tid, l, viols, done>>
T == Traces[tid].ev

Norm(log) == [i \in DOMAIN log |-> [msg |-> log[i].msg, sev |-> log[i].sev, t |-> log[i].t, n |-> log[i].n]]

Clauses(e) ==
    LET want1 == Merge(<<>>, e.b1)
        want2 == Merge(want1, e.b2)
        got1 == Norm(e.after1)
        got2 == Norm(e.after2)
        ok == e.exc = "none" IN
    << <<"C35.no-raise", ok>>,
       <<"C35.nothing-lost", ~ok \/ SumN(got2) + Dups(<<>>, e.b1 \o e.b2) = Len(e.b1) + Len(e.b2)>>,
       <<"C35.order-kept", ~ok \/ Keys(got2) = Keys(Collapse(e.b1 \o e.b2))>>,
       <<"C35.merge-first-batch", ~ok \/ got1 = want1>>,
       <<"C35.merge-across-batches", ~ok \/ got1 # want1 \/ got2 = want2>> >>

TInit == /\ tid \in 1..Len(Traces) /\ l = 1 /\ viols = {} /\ done = FALSE /\ input = <<>> /\ split = 0
Step == /\ l <= Len(T) /\ viols' = AddViols(viols, Failing(Clauses(T[l])), l)
        /\ l' = l + 1 /\ UNCHANGED <<input, split, tid, done>>
Finish == /\ l = Len(T) + 1 /\ ~done /\ done' = TRUE /\ Report(Traces[tid].id, l - 1, viols)
          /\ UNCHANGED <<input, split, tid, l, viols>>
TSpec == TInit /\ [][Step \/ Finish]_tvars
=============================================================================
