CONSTANTS
  Out = {"o1", "o2"}
  Val = {"a", "b"}
  RT = 10
  ET = 18000
  Steps = {1, 11, 18001}
  MaxLevel = 5
SPECIFICATION Spec
CONSTRAINT Bound
INVARIANT TypeOK
INVARIANT StatusMatchesState
INVARIANT MaskedInIssueReconnect
INVARIANT RaisesWhenDown
INVARIANT MaskedReadReturnsLastGood
INVARIANT NoLostWrite
PROPERTY OnlyDocumentedTransitions
PROPERTY NoStaleWrite
CHECK_DEADLOCK FALSE
