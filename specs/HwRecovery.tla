----------------------------- MODULE HwRecovery -----------------------------
(***************************************************************************)
(* Hardware connection error recovery (C23, C24).                          *)
(*                                                                         *)
(* The documented five-state protocol of docs/src/Error Recovery.rst,      *)
(* written as a deterministic state machine over the calls the engine      *)
(* makes on the hardware layer: connect, read, write, tick.  One action    *)
(* per call; every action is a *function* `<A>F(args)` from the current    *)
(* variables to the record of next values, so that the trace spec          *)
(* (HwRecoveryTrace) can compute the expected successor and compare it     *)
(* with what the implementation did.                                       *)
(*                                                                         *)
(* Abstractions: one input register `in`, output registers Out; time is    *)
(* kept as two saturating ages (since the last successful read/write,      *)
(* since entering Reconnect) because only their relation to the two        *)
(* timeouts matters.                                                       *)
(***************************************************************************)
EXTENDS Naturals, FiniteSets, TLC

CONSTANTS Out,          \* output registers, e.g. {"o1","o2"}
          Val,          \* values, e.g. {"a","b"}
          RT, ET,       \* reconnect timeout, error timeout (seconds)
          Steps,        \* time advances available to the environment
          MaxLevel      \* bound of the exhaustive exploration

NoVal == "none"
Dirty == "x"            \* unknown device content before anything was written

VARIABLES st,       \* recovery state
          ageOk,    \* seconds since last successful read/write, saturating at RT+1
          ageRc,    \* seconds since entering Reconnect, saturating at ET+1
          lkg,      \* last value successfully read from `in`
          cmd,      \* [Out -> Val \cup {NoVal}] value most recently accepted from the engine
          dev,      \* [Out -> Val \cup {Dirty}] device memory
          status,   \* Connection Status tag
          raised,   \* did the last call raise
          ret,      \* value returned by the last read (NoVal if none / not a read)
          last      \* <<call, state before the call, arguments>>: history, read by the invariants and by the replay harness

vars == <<st, ageOk, ageRc, lkg, cmd, dev, status, raised, ret, last>>

States == {"Disconnected", "OK", "Issue", "Reconnect", "Error"}
Masking == {"Issue", "Reconnect"}
Down == {"Disconnected", "Error"}

StatusOf(s) == IF s \in Down THEN "Disconnected" ELSE "Connected"

Cur == [st |-> st, ageOk |-> ageOk, ageRc |-> ageRc, lkg |-> lkg, cmd |-> cmd, dev |-> dev,
        status |-> status, raised |-> raised, ret |-> ret, last |-> last]

Apply(n) == /\ st' = n.st /\ ageOk' = n.ageOk /\ ageRc' = n.ageRc /\ lkg' = n.lkg /\ cmd' = n.cmd
            /\ dev' = n.dev /\ status' = n.status /\ raised' = n.raised /\ ret' = n.ret /\ last' = n.last

Sat(x, cap) == IF x > cap THEN cap ELSE x

(* A read/write error was noted in state s: the documented transitions. *)
AfterError(s) ==
    CASE s = "OK" -> "Issue"
      [] s = "Issue" -> IF ageOk > RT THEN "Reconnect" ELSE "Issue"
      [] s = "Reconnect" -> IF ageRc > ET THEN "Error" ELSE "Reconnect"
      [] OTHER -> s

WithState(r, s2) == [r EXCEPT !.st = s2, !.status = StatusOf(s2),
                               !.ageRc = IF s2 = "Reconnect" /\ r.st # "Reconnect" THEN 0 ELSE r.ageRc]

ConnectF(ok) ==
    LET base == [Cur EXCEPT !.last = <<"Connect", st, <<ok>> >>, !.ret = NoVal] IN
    IF st # "Disconnected" THEN [base EXCEPT !.raised = ~ok]
    ELSE IF ok THEN WithState([base EXCEPT !.raised = FALSE], "OK")
    ELSE [base EXCEPT !.raised = TRUE]

ReadF(ok, v) ==
    LET base == [Cur EXCEPT !.last = <<"Read", st, <<ok, v>> >>] IN
    CASE st \in Down -> [base EXCEPT !.raised = TRUE, !.ret = NoVal]
      [] st = "Reconnect" ->       \* masked, the device is not consulted; the call counts as an error
            WithState([base EXCEPT !.raised = FALSE, !.ret = lkg], AfterError(st))
      [] ok -> WithState([base EXCEPT !.raised = FALSE, !.ret = v, !.lkg = v, !.ageOk = 0], "OK")
      [] OTHER -> WithState([base EXCEPT !.raised = FALSE, !.ret = lkg], AfterError(st))

(* vals: function from a non-empty subset of Out to Val (a write cycle or a single register write) *)
WriteF(vals, ok) ==
    LET base == [Cur EXCEPT !.last = <<"Write", st, <<vals, ok>> >>, !.ret = NoVal]
        cmd2 == [r \in Out |-> IF r \in DOMAIN vals THEN vals[r] ELSE cmd[r]] IN
    CASE st \in Down -> [base EXCEPT !.raised = TRUE]
      [] st = "Reconnect" -> WithState([base EXCEPT !.raised = FALSE, !.cmd = cmd2], AfterError(st))
      [] ok ->  \* the write reaches the device and everything buffered is flushed: device = commanded
            WithState([base EXCEPT !.raised = FALSE, !.cmd = cmd2, !.ageOk = 0,
                                   !.dev = [r \in Out |-> IF cmd2[r] # NoVal THEN cmd2[r] ELSE dev[r]]], "OK")
      [] OTHER -> WithState([base EXCEPT !.raised = FALSE, !.cmd = cmd2], AfterError(st))

(* A write in state OK whose values the device already holds may be skipped (the "only write modified values" *)
(* optimisation).  Nothing goes over the wire, so it cannot fail; whether it counts as a *successful write* for the *)
(* Issue time-out is left open (the documentation does not say): both successors are allowed.                  *)
CanSkip(vals) == /\ st = "OK" /\ \A r \in DOMAIN vals : dev[r] = vals[r]
                 /\ \A r \in Out : cmd[r] # NoVal => dev[r] = cmd[r]       \* nothing is waiting to be flushed
WriteSkipF(vals) ==
    LET base == [Cur EXCEPT !.last = <<"WriteSkip", st, <<vals>> >>, !.ret = NoVal, !.raised = FALSE,
                            !.cmd = [r \in Out |-> IF r \in DOMAIN vals THEN vals[r] ELSE cmd[r]]] IN
    {base, [base EXCEPT !.ageOk = 0]}

(* the engine ticks the hardware layer until the next reconnect attempt is made (back-off is not modelled) *)
TickF(ok) ==
    LET base == [Cur EXCEPT !.last = <<"Tick", st, <<ok>> >>, !.ret = NoVal, !.raised = FALSE] IN
    IF st \in {"Reconnect", "Error"} /\ ok THEN WithState(base, "OK") ELSE base

AdvanceF(d) == [Cur EXCEPT !.last = <<"Advance", st, <<d>> >>, !.raised = FALSE, !.ret = NoVal, !.ageOk = Sat(ageOk + d, RT + 1),
                           !.ageRc = Sat(ageRc + d, ET + 1)]

Connect(ok) == Apply(ConnectF(ok))
Read(ok, v) == Apply(ReadF(ok, v))
Write(vals, ok) == Apply(WriteF(vals, ok))
WriteSkip(vals) == CanSkip(vals) /\ \E n \in WriteSkipF(vals) : Apply(n)
Tick(ok) == Apply(TickF(ok))
Advance(d) == Apply(AdvanceF(d))

WriteArgs == UNION {[S -> Val] : S \in (SUBSET Out) \ {{}}}

Init == /\ st = "Disconnected" /\ ageOk = 0 /\ ageRc = 0 /\ lkg = NoVal
        /\ cmd = [r \in Out |-> NoVal] /\ dev = [r \in Out |-> Dirty]
        /\ status = "Disconnected" /\ raised = FALSE /\ ret = NoVal /\ last = <<"Init", "Disconnected", <<>> >>

Next == \/ \E ok \in BOOLEAN : st = "Disconnected" /\ Connect(ok)
        \/ \E ok \in BOOLEAN, v \in Val : Read(ok, v)
        \/ \E vals \in WriteArgs, ok \in BOOLEAN : Write(vals, ok)
        \/ \E vals \in WriteArgs : WriteSkip(vals)
        \/ \E ok \in BOOLEAN : Tick(ok)
        \/ \E d \in Steps : Advance(d)

Spec == Init /\ [][Next]_vars

Bound == TLCGet("level") <= MaxLevel

-----------------------------------------------------------------------------
(* C23 *)
TypeOK == /\ st \in States /\ status \in {"Connected", "Disconnected"}
          /\ ageOk \in 0..(RT + 1) /\ ageRc \in 0..(ET + 1)

StatusMatchesState == status = "Disconnected" <=> st \in Down

MaskedInIssueReconnect == last[1] \in {"Read", "Write", "WriteSkip"} /\ last[2] \in Masking => ~raised

RaisesWhenDown == last[1] \in {"Read", "Write", "WriteSkip"} /\ last[2] \in Down => raised

MaskedReadReturnsLastGood ==
    last[1] = "Read" /\ last[2] = "Reconnect" => ret = lkg

DocumentedTransitions == { <<"Disconnected", "OK">>, <<"OK", "Issue">>, <<"Issue", "OK">>, <<"Issue", "Reconnect">>,
                           <<"Reconnect", "OK">>, <<"Reconnect", "Error">>, <<"Error", "OK">> }
OnlyDocumentedTransitions == [][st' = st \/ <<st, st'>> \in DocumentedTransitions]_vars

(* C24 *)
NoLostWrite ==
    last[1] \in {"Write", "WriteSkip"} /\ st = "OK" /\ ~raised => \A r \in Out : cmd[r] # NoVal => dev[r] = cmd[r]

(* the device never receives anything but the value most recently commanded for that register *)
NoStaleWrite == [][\A r \in Out : dev'[r] # dev[r] => dev'[r] = cmd'[r]]_vars
=============================================================================
