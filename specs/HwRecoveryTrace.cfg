CONSTANTS
  Out = {"o1", "o2"}
  Val = {"a", "b"}
  RT = 10
  ET = 18000
  Steps = {1, 11, 18001}
  MaxLevel = 100
SPECIFICATION TSpec
CHECK_DEADLOCK FALSE
