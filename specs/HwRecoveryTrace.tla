-------------------------- MODULE HwRecoveryTrace --------------------------
(* Validates recorded executions of the real ErrorRecoveryDecorator against HwRecovery (C23, C24).          *)
(* Event: [a |-> "read"|"write"|"tick"|"connect"|"advance", ok, v, vals, d, post |-> projected state]       *)
EXTENDS HwRecovery, TraceLib

VARIABLES tid, l, viols, done
tvars == <<vars, tid, l, viols, done>>

T == Traces[tid].ev

(* a write in state OK that did not touch the device is the WriteSkip action *)
IsSkip(e) == e.a = "write" /\ ~e.touched /\ st = "OK"

Expected(e) ==
    CASE e.a = "connect" -> {ConnectF(e.ok)}
      [] e.a = "read" -> {ReadF(e.ok, e.v)}
      [] IsSkip(e) -> WriteSkipF(e.vals)
      [] e.a = "write" -> {WriteF(e.vals, e.ok)}
      [] e.a = "tick" -> {TickF(e.ok)}
      [] e.a = "advance" -> {AdvanceF(e.d)}

(* Clauses comparing the expected successor with what the implementation shows after the call. *)
Clauses(e, x) ==
    LET p == e.post IN
    << <<"C23.state@" \o e.a, p.st = x.st>>,
       <<"C23.status@" \o e.a, p.status = x.status>>,
       <<"C23.raised@" \o e.a, p.raised = x.raised>>,
       <<"C23.read-value@" \o e.a, e.a # "read" \/ p.raised \/ p.ret = x.ret>>,
       <<"C24.device@" \o e.a, \A r \in Out : p.dev[r] = x.dev[r]>>,
       \* the design invariants, evaluated on the implementation's own state
       <<"C23.status-matches-state", (p.status = "Disconnected") <=> (p.st \in Down)>>,
       <<"C23.masked-in-issue-reconnect", e.a \in {"read", "write"} /\ st \in Masking => ~p.raised>>,
       <<"C23.raises-when-down", e.a \in {"read", "write"} /\ st \in Down => p.raised>>,
       <<"C23.documented-transition", p.st = st \/ <<st, p.st>> \in DocumentedTransitions>>,
       <<"C24.no-stale-write", \A r \in Out : p.dev[r] # dev[r] => p.dev[r] = x.cmd[r]>>,
       <<"C24.skip-only-if-unchanged", IsSkip(e) => CanSkip(e.vals)>> >>

(* after a divergence continue from the implementation's observable state so the rest is still checked *)
Resync(e, x) ==
    LET p == e.post IN
    [x EXCEPT !.st = p.st, !.status = p.status, !.raised = p.raised,
              !.ret = IF p.raised THEN NoVal ELSE p.ret, !.dev = p.dev]

TInit == /\ Init /\ tid \in 1..Len(Traces) /\ l = 1 /\ viols = {} /\ done = FALSE

Step == /\ l <= Len(T)
        /\ LET e == T[l]
               C == Expected(e)
               M == {x \in C : Failing(Clauses(e, x)) = {}} IN
           IF M # {} THEN (\E x \in M : Apply(x)) /\ viols' = viols
           ELSE LET x == CHOOSE y \in C : TRUE IN
                Apply(Resync(e, x)) /\ viols' = AddViols(viols, Failing(Clauses(e, x)), l)
        /\ l' = l + 1 /\ UNCHANGED <<tid, done>>

Finish == /\ l = Len(T) + 1 /\ ~done /\ done' = TRUE
          /\ Report(Traces[tid].id, l - 1, viols)
          /\ UNCHANGED <<vars, tid, l, viols>>

TNext == Step \/ Finish
TSpec == TInit /\ [][TNext]_tvars
=============================================================================
