-------------------------------- MODULE Interp --------------------------------
(***************************************************************************)
(* The P-code interpreter's control structures, tick by tick (C02 C04 C05). *)
(*                                                                          *)
(* A method is a tree of Mark, Block, End block, Watch and Alarm nodes.     *)
(* One tick advances the main visitor and then every registered interrupt   *)
(* (Watch / Alarm body visitor, in registration order) until each yields    *)
(* "end of tick".  The model follows the implementation's yield points:     *)
(*   every node      started -> end of tick -> its own behaviour             *)
(*   Mark            done in the next tick, end of tick, then returns       *)
(*   Block           takes the block lock when all locked blocks are its    *)
(*                   ancestors (else waits a tick), runs its children,      *)
(*                   waits until it is ended, releases the lock, completes  *)
(*   End block       ends the innermost locked block and aborts the         *)
(*                   interrupts registered inside it, end of tick           *)
(*   Watch / Alarm   main visit: register an interrupt, end of tick;        *)
(*                   interrupt: started, end of tick, evaluate the          *)
(*                   condition once per tick; the tick after it held run    *)
(*                   the children; Watch completes; Alarm resets its        *)
(*                   subtree and registers a fresh interrupt                *)
(* The only input is `hi`: whether the condition (the same for all) holds   *)
(* in a tick.  TLC explores every input sequence for every listed method.   *)
(* The real interpreter is stepped through the same behaviours and must     *)
(* agree on every variable after every tick (harness/checks/interplock.py). *)
(***************************************************************************)
EXTENDS Naturals, Sequences, FiniteSets, TLC

CONSTANTS MaxTicks

(* ---- methods: node 1 is the program; Kind, Parent, Kids ------------------------------------------------------------ *)
P(kind, parent, kids) == [kind |-> kind, parent |-> parent, kids |-> kids, name |-> ""]
PN(kind, parent, kids, name) == [kind |-> kind, parent |-> parent, kids |-> kids, name |-> name]      \* Macro / Call macro
Programs ==
  << \* 1: Mark; Block(Mark, End block); Mark
     << P("prog", 0, <<2, 3, 6>>), P("mark", 1, <<>>), P("block", 1, <<4, 5>>), P("mark", 3, <<>>), P("end", 3, <<>>), P("mark", 1, <<>>) >>,
     \* 2: Watch(Mark); Mark; Mark
     << P("prog", 0, <<2, 4, 5>>), P("watch", 1, <<3>>), P("mark", 2, <<>>), P("mark", 1, <<>>), P("mark", 1, <<>>) >>,
     \* 3: Alarm(Mark); Mark; Mark
     << P("prog", 0, <<2, 4, 5>>), P("alarm", 1, <<3>>), P("mark", 2, <<>>), P("mark", 1, <<>>), P("mark", 1, <<>>) >>,
     \* 4: Block(Watch(Mark, End block), Mark, Mark, Mark); Mark      the watch ends the block from its body
     << P("prog", 0, <<2, 9>>), P("block", 1, <<3, 6, 7, 8>>), P("watch", 2, <<4, 5>>), P("mark", 3, <<>>), P("end", 3, <<>>),
        P("mark", 2, <<>>), P("mark", 2, <<>>), P("mark", 2, <<>>), P("mark", 1, <<>>) >>,
     \* 5: Block(Alarm(Mark), Mark, End block); Mark; Mark            the alarm's block ends under it
     << P("prog", 0, <<2, 7, 8>>), P("block", 1, <<3, 5, 6>>), P("alarm", 2, <<4>>), P("mark", 3, <<>>), P("mark", 2, <<>>), P("end", 2, <<>>),
        P("mark", 1, <<>>), P("mark", 1, <<>>) >>,
     \* 6: Watch(Block(Mark, End block)); Block(Mark, Mark, End block); Mark     a block from a watch competes for the lock
     << P("prog", 0, <<2, 6, 10>>), P("watch", 1, <<3>>), P("block", 2, <<4, 5>>), P("mark", 3, <<>>), P("end", 3, <<>>),
        P("block", 1, <<7, 8, 9>>), P("mark", 6, <<>>), P("mark", 6, <<>>), P("end", 6, <<>>), P("mark", 1, <<>>) >>,
     \* 7: Block(Block(Mark, End block), Mark, End block); Mark        nested blocks
     << P("prog", 0, <<2, 8>>), P("block", 1, <<3, 6, 7>>), P("block", 2, <<4, 5>>), P("mark", 3, <<>>), P("end", 3, <<>>), P("mark", 2, <<>>),
        P("end", 2, <<>>), P("mark", 1, <<>>) >>,
     \* 8: Block(Watch(End block), Alarm(Mark)); Mark                  watch and alarm fire together, the watch ends the block
     << P("prog", 0, <<2, 7>>), P("block", 1, <<3, 5>>), P("watch", 2, <<4>>), P("end", 3, <<>>), P("alarm", 2, <<6>>), P("mark", 5, <<>>),
        P("mark", 1, <<>>) >>,
     \* 9: Alarm(Block(Mark, End block), Mark); Mark; Mark             a block inside a repeating alarm body
     << P("prog", 0, <<2, 7, 8>>), P("alarm", 1, <<3, 6>>), P("block", 2, <<4, 5>>), P("mark", 3, <<>>), P("end", 3, <<>>), P("mark", 2, <<>>),
        P("mark", 1, <<>>), P("mark", 1, <<>>) >>,
     \* 10: Watch(Watch(Mark), Mark); Mark; Mark                       a watch registered from a watch body
     << P("prog", 0, <<2, 6, 7>>), P("watch", 1, <<3, 5>>), P("watch", 2, <<4>>), P("mark", 3, <<>>), P("mark", 2, <<>>), P("mark", 1, <<>>),
        P("mark", 1, <<>>) >>,
     \* 11: Block(Mark, End block, Mark, Mark); Mark                    lines after End block in the same block never run
     << P("prog", 0, <<2, 7>>), P("block", 1, <<3, 4, 5, 6>>), P("mark", 2, <<>>), P("end", 2, <<>>), P("mark", 2, <<>>), P("mark", 2, <<>>),
        P("mark", 1, <<>>) >>,
     \* 12: Block(Alarm(Mark, End block), Mark, Mark, Mark); Mark       the alarm ends its own block
     << P("prog", 0, <<2, 9>>), P("block", 1, <<3, 6, 7, 8>>), P("alarm", 2, <<4, 5>>), P("mark", 3, <<>>), P("end", 3, <<>>), P("mark", 2, <<>>),
        P("mark", 2, <<>>), P("mark", 2, <<>>), P("mark", 1, <<>>) >>,
     \* 13: Watch(Mark, Mark); Alarm(Mark); Watch(Mark); Mark           three interrupts in registration order
     << P("prog", 0, <<2, 5, 7, 9>>), P("watch", 1, <<3, 4>>), P("mark", 2, <<>>), P("mark", 2, <<>>), P("alarm", 1, <<6>>), P("mark", 5, <<>>),
        P("watch", 1, <<8>>), P("mark", 7, <<>>), P("mark", 1, <<>>) >>,
     \* 14: Block(Block(Watch(End block), Mark, Mark, Mark), Mark, End block); Mark    a watch ends the inner of two blocks
     << P("prog", 0, <<2, 11>>), P("block", 1, <<3, 9, 10>>), P("block", 2, <<4, 6, 7, 8>>), P("watch", 3, <<5>>), P("end", 4, <<>>),
        P("mark", 3, <<>>), P("mark", 3, <<>>), P("mark", 3, <<>>), P("mark", 2, <<>>), P("end", 2, <<>>), P("mark", 1, <<>>) >>,
     \* 15: Macro A(Mark, Mark); Call A; Call A; Mark                   a macro called twice
     << P("prog", 0, <<2, 5, 6, 7>>), PN("macro", 1, <<3, 4>>, "A"), P("mark", 2, <<>>), P("mark", 2, <<>>), PN("call", 1, <<>>, "A"),
        PN("call", 1, <<>>, "A"), P("mark", 1, <<>>) >>,
     \* 16: Macro A(Mark); Call A; Macro A(Mark, Mark); Call A; Mark    the latest definition is the one that runs
     << P("prog", 0, <<2, 4, 5, 8, 9>>), PN("macro", 1, <<3>>, "A"), P("mark", 2, <<>>), PN("call", 1, <<>>, "A"), PN("macro", 1, <<6, 7>>, "A"),
        P("mark", 5, <<>>), P("mark", 5, <<>>), PN("call", 1, <<>>, "A"), P("mark", 1, <<>>) >>,
     \* 17: Macro A(Mark, Call A); Call A; Mark; Mark                   direct recursion: the call fails
     << P("prog", 0, <<2, 5, 6, 7>>), PN("macro", 1, <<3, 4>>, "A"), P("mark", 2, <<>>), PN("call", 2, <<>>, "A"), PN("call", 1, <<>>, "A"),
        P("mark", 1, <<>>), P("mark", 1, <<>>) >>,
     \* 18: Macro A(Mark, Call B); Macro B(Block(Call A, End block)); Call B; Mark      indirect recursion through a block
     << P("prog", 0, <<2, 5, 9, 10>>), PN("macro", 1, <<3, 4>>, "A"), P("mark", 2, <<>>), PN("call", 2, <<>>, "B"), PN("macro", 1, <<6>>, "B"),
        P("block", 5, <<7, 8>>), PN("call", 6, <<>>, "A"), P("end", 6, <<>>), PN("call", 1, <<>>, "B"), P("mark", 1, <<>>) >>,
     \* 19: Call Z; Mark; Mark                                           undefined macro: the call fails
     << P("prog", 0, <<2, 3, 4>>), PN("call", 1, <<>>, "Z"), P("mark", 1, <<>>), P("mark", 1, <<>>) >>,
     \* 20: Macro A(Mark, Mark); Watch(Call A); Mark; Mark; Mark          a call from a watch body
     << P("prog", 0, <<2, 5, 7, 8, 9>>), PN("macro", 1, <<3, 4>>, "A"), P("mark", 2, <<>>), P("mark", 2, <<>>), P("watch", 1, <<6>>),
        PN("call", 5, <<>>, "A"), P("mark", 1, <<>>), P("mark", 1, <<>>), P("mark", 1, <<>>) >>,
     \* 21: Block(Block(Block(Mark, End block), Mark, End block), Mark, End block); Mark      three levels, ended one by one
     << P("prog", 0, <<2, 11>>), P("block", 1, <<3, 9, 10>>), P("block", 2, <<4, 7, 8>>), P("block", 3, <<5, 6>>), P("mark", 4, <<>>),
        P("end", 4, <<>>), P("mark", 3, <<>>), P("end", 3, <<>>), P("mark", 2, <<>>), P("end", 2, <<>>), P("mark", 1, <<>>) >>,
     \* 22: Block(Block(Block(Watch(End block), Mark, Mark, Mark), Mark, End block), Mark, End block)   a watch ends the innermost of three
     << P("prog", 0, <<2>>), P("block", 1, <<3, 12, 13>>), P("block", 2, <<4, 10, 11>>), P("block", 3, <<5, 7, 8, 9>>), P("watch", 4, <<6>>),
        P("end", 5, <<>>), P("mark", 4, <<>>), P("mark", 4, <<>>), P("mark", 4, <<>>), P("mark", 3, <<>>), P("end", 3, <<>>),
        P("mark", 2, <<>>), P("end", 2, <<>>) >>,
     \* 23: Macro A(Mark); Macro B(Call A); Call B; Macro A(Call B); Call B; Mark      a redefinition closes a cycle after B has run once
     << P("prog", 0, <<2, 4, 6, 7, 9, 10>>), PN("macro", 1, <<3>>, "A"), P("mark", 2, <<>>), PN("macro", 1, <<5>>, "B"),
        PN("call", 4, <<>>, "A"), PN("call", 1, <<>>, "B"), PN("macro", 1, <<8>>, "A"), PN("call", 7, <<>>, "B"),
        PN("call", 1, <<>>, "B"), P("mark", 1, <<>>) >> >>

VARIABLES prog,         \* index into Programs
          st,           \* the interpreter state (a record, see Fresh)
          tickNo, hist  \* hist: the inputs so far (sequence of booleans)
vars == <<prog, st, tickNo, hist>>

Pr == Programs[prog]
N == 1..Len(Pr)
Kind(n) == Pr[n].kind
Kids(n) == Pr[n].kids
RECURSIVE Anc(_)
Anc(n) == IF Pr[n].parent = 0 THEN {} ELSE {Pr[n].parent} \cup Anc(Pr[n].parent)
RECURSIVE Desc(_)
Desc(n) == UNION {{Kids(n)[i]} \cup Desc(Kids(n)[i]) : i \in DOMAIN Kids(n)}
Depth(n) == Cardinality({a \in Anc(n) : Kind(a) = "block"})

Fresh(p) == LET nn == 1..Len(Programs[p]) IN
    [started |-> {}, completed |-> {}, locked |-> {}, ended |-> {}, registered |-> {}, activated |-> {},
     kidx |-> [n \in nn |-> 1], kdone |-> {},
     pc |-> [n \in nn |-> "new"],      \* position of the main visitor in the node's visit
     ipc |-> [n \in nn |-> "new"],     \* position of the node's interrupt visitor (Watch / Alarm)
     irq |-> <<>>,                     \* registered interrupts, in registration order
     tag |-> 0,                        \* the block the Block tag names (0 = none)
     marks |-> <<>>, runs |-> [n \in nn |-> 0],
     failed |-> {}, halted |-> FALSE,   \* a failing instruction pauses the run at the end of its tick
     defs |-> {},                      \* <<name, macro node>>: the definition registered last under each name
     mstart |-> [n \in nn |-> 0], mdone |-> [n \in nn |-> 0]]     \* per macro: invocations started / completed

InEnded(s, n) == \E a \in Anc(n) : Kind(a) = "block" /\ a \in s.ended
LockedInner(s) == IF s.locked = {} THEN 0 ELSE CHOOSE b \in s.locked : \A c \in s.locked : Depth(c) <= Depth(b)
NextOuter(s, b) == LET rest == (s.locked \ {b}) \ s.ended IN      \* the enclosing block that is still active
                   IF rest = {} THEN 0 ELSE CHOOSE x \in rest : \A c \in rest : Depth(c) <= Depth(x)
RemoveSeq(q, set) == SelectSeq(q, LAMBDA x : x \notin set)

(* reset of a subtree when an alarm re-arms: flags and visit positions *)
ResetTree(s, n) ==
    LET T == {n} \cup Desc(n) IN
    [s EXCEPT !.started = @ \ T, !.completed = @ \ T, !.activated = @ \ T, !.registered = @ \ T, !.kdone = @ \ T,
              !.ended = @ \ T, !.locked = @ \ T,
              !.kidx = [x \in DOMAIN @ |-> IF x \in T THEN 1 ELSE @[x]],
              !.pc = [x \in DOMAIN @ |-> IF x \in T THEN "new" ELSE @[x]],
              !.ipc = [x \in DOMAIN @ |-> IF x \in T THEN "new" ELSE @[x]]]

Res(s, y) == [s |-> s, y |-> y]

(* macros: the definition a name refers to, and whether calling `m` would (directly or through other calls in macro bodies,
   also inside blocks, watches and alarms, but not inside nested definitions) reach the name again *)
Lookup(s, name) == IF \E d \in s.defs : d[1] = name THEN (CHOOSE d \in s.defs : d[1] = name)[2] ELSE 0
RECURSIVE BodyCalls(_)
BodyCalls(n) == UNION {(IF Kind(Kids(n)[i]) = "call" THEN {Pr[Kids(n)[i]].name} ELSE {})
                         \cup (IF Kind(Kids(n)[i]) = "macro" THEN {} ELSE BodyCalls(Kids(n)[i])) : i \in DOMAIN Kids(n)}
RECURSIVE Reach(_, _, _)
Reach(s, names, seen) ==       \* every macro name reachable from the calls `names`
    LET new == names \ seen IN
    IF new = {} THEN seen
    ELSE Reach(s, UNION {IF Lookup(s, x) = 0 THEN {} ELSE BodyCalls(Lookup(s, x)) : x \in new}, seen \cup new)
Recursive(s, m) == Pr[m].name \in Reach(s, BodyCalls(m), {})

(* Advance the visit of node n (mode "m": main visitor position pc, mode "i": interrupt position ipc) until it yields the
   end of the tick ("end") or returns ("done"). *)
RECURSIVE Go(_, _, _, _)
RECURSIVE RunKids(_, _, _, _)

(* the children loop of _visit_children; `mode` is the mode of the visitor that runs the loop *)
RunKids(s, n, mode, hi) ==
    LET idx == s.kidx[n]
        inProgress == idx <= Len(Kids(n)) /\ s.pc[Kids(n)[idx]] # "new" /\ Kids(n)[idx] \notin s.completed
    IN
    \* a child whose visit is in progress is resumed where it was suspended; the loop tests (children complete, node
    \* completed, child in an ended block) are made only before a child is visited
    IF inProgress
    THEN LET r == Go(s, Kids(n)[idx], "m", hi) IN
         IF r.y = "end" THEN r ELSE RunKids([r.s EXCEPT !.kidx[n] = @ + 1], n, mode, hi)
    ELSE IF n \in s.completed \/ n \in s.kdone THEN Res(s, "done")
    ELSE IF idx > Len(Kids(n)) THEN Res([s EXCEPT !.kdone = @ \cup {n}], "done")
    ELSE LET c == Kids(n)[idx] IN
         IF InEnded(s, c) THEN Res([s EXCEPT !.kdone = @ \cup {n}], "done")
         ELSE LET r == Go(s, c, "m", hi) IN            \* children are always visited with their main position
              IF r.y = "end" THEN r
              ELSE RunKids([r.s EXCEPT !.kidx[n] = @ + 1], n, mode, hi)

Go(s, n, mode, hi) ==
    LET pos == IF mode = "m" THEN s.pc[n] ELSE s.ipc[n]
        Set(t, v) == IF mode = "m" THEN [t EXCEPT !.pc[n] = v] ELSE [t EXCEPT !.ipc[n] = v]
    IN
    IF pos = "new" THEN
        IF n \in s.completed THEN Res(s, "done")
        ELSE Res(Set([s EXCEPT !.started = @ \cup {n}], "entered"), "end")
    ELSE CASE Kind(n) = "prog" ->
              LET r == RunKids(s, n, mode, hi) IN
              IF r.y = "end" THEN r ELSE Res(Set(r.s, "idle"), "end")          \* the program visit never returns
      [] Kind(n) = "mark" ->
              IF pos = "entered"
              THEN Res(Set([s EXCEPT !.completed = @ \cup {n}, !.marks = Append(@, n)], "fin"), "end")
              ELSE Res(s, "done")
      [] Kind(n) = "end" ->
              IF pos = "entered"
              THEN LET b == LockedInner(s) IN
                   IF b = 0 THEN Res(Set([s EXCEPT !.completed = @ \cup {n}], "fin"), "end")
                   ELSE LET gone == {x \in Desc(b) : x \in {s.irq[i] : i \in DOMAIN s.irq}} IN
                        Res(Set([s EXCEPT !.completed = @ \cup {n}, !.ended = @ \cup {b}, !.tag = NextOuter(s, b),
                                          !.irq = RemoveSeq(@, gone), !.registered = @ \ gone, !.kdone = @ \cup gone], "fin"), "end")
              ELSE Res(s, "done")
      [] Kind(n) = "block" ->
              IF pos \in {"entered", "lockwait"}
              THEN IF s.locked \subseteq Anc(n)
                   THEN Go(Set([s EXCEPT !.locked = @ \cup {n}, !.tag = n], "kids"), n, mode, hi)
                   ELSE Res(Set(s, "lockwait"), "end")
              ELSE IF pos = "kids"
              THEN LET r == RunKids(s, n, mode, hi) IN
                   IF r.y = "end" THEN r ELSE Go(Set(r.s, "endwait"), n, mode, hi)
              ELSE \* endwait
                   IF n \in s.ended
                   THEN Res(Set([s EXCEPT !.locked = @ \ {n}, !.completed = @ \cup {n}, !.kdone = @ \cup {n}], "fin"), "done")
                   ELSE Res(s, "end")
      [] Kind(n) = "macro" ->
              IF pos = "entered"
              THEN Res(Set([s EXCEPT !.completed = @ \cup {n}, !.defs = {d \in @ : d[1] # Pr[n].name} \cup {<<Pr[n].name, n>>}], "fin"), "end")
              ELSE Res(s, "done")
      [] Kind(n) = "call" ->
              IF pos = "entered"
              THEN LET m == Lookup(s, Pr[n].name) IN
                   IF m = 0 \/ Recursive(s, m)
                   THEN Res(Set([s EXCEPT !.failed = @ \cup {n}], "fin"), "done")     \* fails; the visitor goes on within this tick
                   ELSE LET t == IF s.mstart[m] <= s.mdone[m]
                                 THEN [ResetTree(s, m) EXCEPT !.mstart[m] = @ + 1]
                                 ELSE s
                        IN Go(Set(t, "body"), n, mode, hi)
              ELSE IF pos = "body"
              THEN LET m == Lookup(s, Pr[n].name) r == RunKids(s, m, mode, hi) IN
                   IF r.y = "end" THEN r
                   ELSE Res(Set([r.s EXCEPT !.mdone[m] = @ + 1, !.completed = @ \cup {m, n}], "fin"), "end")
              ELSE Res(s, "done")
      [] Kind(n) \in {"watch", "alarm"} /\ mode = "m" ->
              IF pos = "entered"
              THEN IF InEnded(s, n) THEN Res(s, "done")                          \* its block was ended meanwhile: not registered
                   ELSE Res(Set([s EXCEPT !.registered = @ \cup {n}, !.irq = Append(@, n)], "reg"), "end")
              ELSE Res(s, "done")
      [] OTHER ->   \* watch / alarm, interrupt visitor
              IF pos = "entered" /\ n \notin s.registered
              THEN \* the interrupt was aborted (block ended) before its first turn: the visitor finds itself unregistered
                   IF InEnded(s, n) THEN Res(Set(s, "dead"), "done")
                   ELSE Res(Set([s EXCEPT !.registered = @ \cup {n}, !.irq = Append(@, n)], "dead"), "end")
              ELSE IF pos \in {"entered", "await"}
              THEN IF n \in s.activated
                   THEN LET r == RunKids(s, n, mode, hi) IN       \* the tick after the condition held: run the body
                        IF r.y = "end" THEN Res(Set(r.s, "kids"), "end") ELSE Go(Set(r.s, "kids"), n, mode, hi)
                   ELSE Res(Set([s EXCEPT !.activated = IF hi THEN @ \cup {n} ELSE @], "await"), "end")
              ELSE IF pos = "kids"
              THEN LET r == RunKids(s, n, mode, hi) IN
                   IF r.y = "end" THEN r
                   ELSE IF Kind(n) = "watch" THEN Res(Set([r.s EXCEPT !.completed = @ \cup {n}], "dead"), "done")
                   ELSE \* alarm: one run completed; reset the subtree and arm again unless its block has ended
                        LET t0 == [r.s EXCEPT !.irq = RemoveSeq(@, {n}), !.runs[n] = @ + 1]
                            t1 == ResetTree(t0, n)
                            t2 == IF InEnded(t1, n) THEN t1 ELSE [t1 EXCEPT !.registered = @ \cup {n}, !.irq = Append(@, n)]
                        IN Res(t2, "end")
              ELSE Res(s, "done")      \* dead

(* one tick: the main visitor, then every interrupt that was registered when the interrupt phase began, in order *)
RECURSIVE RunIrqs(_, _, _, _)
RunIrqs(s, list, i, hi) ==
    IF i > Len(list) THEN s
    ELSE LET n == list[i] IN RunIrqs(Go(s, n, "i", hi).s, list, i + 1, hi)

TickTo(s, hi) ==
    IF s.halted THEN s                                       \* paused on error: the interpreter is not ticked
    ELSE LET a == Go(s, 1, "m", hi).s
             b == RunIrqs(a, a.irq, 1, hi)
         IN [b EXCEPT !.halted = b.failed # {}]

Init == prog \in DOMAIN Programs /\ st = Fresh(prog) /\ tickNo = 0 /\ hist = <<>>
Tick(hi) == /\ tickNo < MaxTicks /\ st' = TickTo(st, hi) /\ tickNo' = tickNo + 1 /\ hist' = Append(hist, hi) /\ UNCHANGED prog
Next == \E hi \in BOOLEAN : Tick(hi)
Spec == Init /\ [][Next]_vars

-----------------------------------------------------------------------------
(* C02 *)
StartedBeforeCompleted == \A n \in st.completed : n \in st.started \/ Kind(n) = "macro"     \* (a called macro is reset, then marked completed)
InOrder == \A n \in N : \A i, j \in DOMAIN Kids(n) :
              (i < j /\ Kids(n)[j] \in st.started /\ ~\E a \in Anc(n) \cup {n} : Kind(a) \in {"alarm", "macro"})
                 => (Kids(n)[i] \in st.completed \/ Kids(n)[i] \in st.failed \/ Kind(Kids(n)[i]) \in {"watch", "alarm", "macro"})
ParentStarted == \A n \in st.started : Pr[n].parent = 0 \/ Pr[n].parent \in st.started \/ Kind(Pr[n].parent) = "macro"
MarksOnceOutsideAlarms ==
    \A i, j \in DOMAIN st.marks : (i # j /\ st.marks[i] = st.marks[j]) => \E a \in Anc(st.marks[i]) : Kind(a) \in {"alarm", "macro"}
(* C41 *)
MacroRunsOncePerCall == \A m \in N : Kind(m) = "macro" => st.mdone[m] <= st.mstart[m] /\ st.mstart[m] <= st.mdone[m] + 1
RecursiveCallFails == \A n \in st.completed : Kind(n) = "call" => n \notin st.failed
(* C04 *)
BodyNeedsActivation == \A n \in st.started : (Pr[n].parent # 0 /\ Kind(Pr[n].parent) \in {"watch", "alarm"}) => Pr[n].parent \in st.activated
NoBodyInEndedBlock == [][\A n \in N : (n \in st'.started /\ n \notin st.started /\ Kind(n) \notin {"watch", "alarm"}) => ~InEnded(st, n)]_vars
(* C05 *)
LockedChain == \A a, b \in st.locked : a = b \/ a \in Anc(b) \/ b \in Anc(a)
TagIsInnermost == st.tag = (IF st.locked \ st.ended = {} THEN 0
                            ELSE CHOOSE b \in st.locked \ st.ended : \A c \in st.locked \ st.ended : Depth(c) <= Depth(b))
NoInterruptInEndedBlock == \A i \in DOMAIN st.irq : ~InEnded(st, st.irq[i])
BlockCompletesAfterEnd == \A b \in st.completed : Kind(b) = "block" => b \in st.ended
=============================================================================
