CONSTANTS MaxTicks = 16
SPECIFICATION Spec
INVARIANT StartedBeforeCompleted
INVARIANT InOrder
INVARIANT ParentStarted
INVARIANT MarksOnceOutsideAlarms
INVARIANT BodyNeedsActivation
INVARIANT LockedChain
INVARIANT TagIsInnermost
INVARIANT NoInterruptInEndedBlock
INVARIANT BlockCompletesAfterEnd
PROPERTY NoBodyInEndedBlock
CHECK_DEADLOCK FALSE
