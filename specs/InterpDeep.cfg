CONSTANTS MaxTicks = 16
SPECIFICATION Spec
INVARIANT StartedBeforeCompleted
INVARIANT InOrder
INVARIANT ParentStarted
INVARIANT MarksOnceOutsideAlarms
INVARIANT BodyNeedsActivation
INVARIANT LockedChain
INVARIANT TagIsInnermost
INVARIANT NoInterruptInEndedBlock
INVARIANT BlockCompletesAfterEnd
INVARIANT MacroRunsOncePerCall
INVARIANT RecursiveCallFails
PROPERTY NoBodyInEndedBlock
CHECK_DEADLOCK FALSE
