CONSTANTS MaxTicks = 99
SPECIFICATION TSpec
CHECK_DEADLOCK FALSE
