--------------------------- MODULE InterpLockTrace ---------------------------
(***************************************************************************)
(* Lock-step conformance of the real interpreter with Interp.tla.           *)
(* A trace is one run: [prog, ev] with one event per interpreter tick:      *)
(*  [hi, started, completed, locked, ended, registered, activated, tag,     *)
(*   marks, runs]   the input of the tick and the implementation's state    *)
(*   after it, projected onto the model's variables (node numbers).         *)
(* The model is stepped with the same input (Interp!TickTo) and every       *)
(* variable must agree; the first disagreement of a run is reported under   *)
(* the property that owns the variable, later ticks of that run are not     *)
(* judged (the model cannot follow an implementation it disagrees with).    *)
(***************************************************************************)
EXTENDS Interp, TraceLib

VARIABLES tid, l, viols, done, diverged
tvars == <<vars, tid, l, viols, done, diverged>>
T == Traces[tid].ev
SetOfSeq(q) == {q[i] : i \in DOMAIN q}

Clauses(m, e) ==
    << <<"C02.lockstep-started", m.started = SetOfSeq(e.started)>>,
       <<"C02.lockstep-completed", m.completed = SetOfSeq(e.completed)>>,
       <<"C02.lockstep-marks", m.marks = e.marks>>,
       <<"C02.lockstep-failed", m.failed = SetOfSeq(e.failed)>>,
       <<"C41.lockstep-macro-invocations", \A n \in DOMAIN m.mstart : m.mstart[n] = e.mstart[n] /\ m.mdone[n] = e.mdone[n]>>,
       <<"C04.lockstep-registered", m.registered = SetOfSeq(e.registered)>>,
       <<"C04.lockstep-activated", m.activated = SetOfSeq(e.activated)>>,
       <<"C04.lockstep-alarm-runs", \A n \in DOMAIN m.runs : m.runs[n] = e.runs[n]>>,
       <<"C05.lockstep-locked", m.locked = SetOfSeq(e.locked)>>,
       <<"C05.lockstep-ended", m.ended = SetOfSeq(e.ended)>>,
       <<"C05.lockstep-block-tag", m.tag = e.tag>> >>

TInit == /\ tid \in 1..Len(Traces) /\ prog = Traces[tid].prog /\ st = Fresh(Traces[tid].prog) /\ tickNo = 0 /\ hist = <<>>
         /\ l = 1 /\ viols = {} /\ done = FALSE /\ diverged = FALSE

Step == /\ l <= Len(T)
        /\ LET e == T[l] m == TickTo(st, e.hi) bad == Failing(Clauses(m, e)) IN
           /\ st' = m /\ tickNo' = tickNo + 1 /\ hist' = hist
           /\ viols' = IF diverged THEN viols ELSE AddViols(viols, bad, l)
           /\ diverged' = (diverged \/ bad # {})
        /\ l' = l + 1 /\ UNCHANGED <<prog, tid, done>>
Finish == /\ l = Len(T) + 1 /\ ~done /\ done' = TRUE /\ Report(Traces[tid].id, l - 1, viols)
          /\ UNCHANGED <<vars, tid, l, viols, diverged>>
TSpec == TInit /\ [][Step \/ Finish]_tvars
=============================================================================
