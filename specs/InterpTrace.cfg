CONSTANT TickMs = 100
SPECIFICATION TSpec
CHECK_DEADLOCK FALSE
