----------------------------- MODULE InterpTrace -----------------------------
(***************************************************************************)
(* Monitor for the P-code interpreter on recorded engine runs               *)
(* (C01 C02 C03 C04 C05 C14 C15 C41).                                       *)
(*                                                                          *)
(* The monitor keeps the abstract interpretation state -- which nodes have  *)
(* started / completed / failed, which conditions are registered, activated,*)
(* cancelled or forced, the chain of locked blocks, the macros in progress  *)
(* -- and advances it with every recorded micro-event of the real           *)
(* interpreter (harness/interp.py documents the alphabet):                  *)
(*   tb / te        tick begin / end (te carries Block tag, method state,   *)
(*                  run log)                                                *)
(*   it / ie        the interpreter's own tick begins / ends                *)
(*   fl             one assignment to an interpretation flag of a node,     *)
(*                  with the static facts of that node in the current       *)
(*                  program (parent, previous sibling, enclosing blocks...) *)
(*   thr / ta       one evaluation of a threshold / of a condition, with    *)
(*                  the exact answer computed from the clocks / tag values  *)
(*   rec            a run-log state record (Started = the instruction runs) *)
(*   init/exec/finalize   UOD command calls                                 *)
(*   edit / inject / injected / ctl / cf     user requests                  *)
(* Each clause is named after the property it decides.                      *)
(***************************************************************************)
EXTENDS Integers, Sequences, FiniteSets, TLC, TraceLib

CONSTANT TickMs

VARIABLES S, D, Fl, A, X, F,      \* node ids: started, completed, failed, activated, cancelled, forced
          L,                      \* locked blocks: <<id, depth, name>>
          E,                      \* blocks ended by End block(s)
          R, RegEver,             \* registered interrupts <<id, enclosing blocks>>; ids ever registered in this run
          began,                  \* nodes with a Started run-log record in their current invocation
          inited,                 \* command nodes whose UOD command was initialised in their current invocation
          openCmd,                \* injected finite commands in progress: <<inst, name, tick of last exec>>
          defs,                   \* <<macro name, node id>>: the definition registered last
          running,                \* macro nodes with an invocation in progress
          justEnded,              \* blocks ended by the End block(s) instruction that is executing
          mustRearm,              \* alarms <<id, blocks>> that completed a run in this tick
          startAt,                \* <<id, ms, idle, edits>>: when the node's latest invocation began to execute (run-log Started)
          injPending,             \* injected roots that have not started yet
          Dt,                     \* completed method instructions that the run log has to show as completed
          ms, tick, inTick, ranTick, idle, edits, pendAct, p,
          stale,                  \* Watch/Alarm nodes whose registered interrupt outlived a reset of their flags (one clause at the
                                  \* reset; what the orphaned interrupt does afterwards is not judged again)
          calls,                  \* <<call node, macro node, macro name>>: macro calls in progress
          defsEver,               \* macro nodes whose definition was registered in this run
          tainted,                \* a live edit lost interpretation state: the rest of this run is not a behaviour of the design
          seen,                   \* witnesses: antecedents of clauses that held at least once (vacuity guard)
          tid, l, viols, done
mvars == <<S, D, Fl, A, X, F, L, E, R, RegEver, began, inited, openCmd, defs, running, justEnded, mustRearm, startAt,
           injPending, Dt, ms, tick, inTick, ranTick, idle, edits, pendAct, p, tainted, stale, calls, defsEver>>
tvars == <<mvars, seen, tid, l, viols, done>>
T == Traces[tid].ev
SetOfSeq(q) == {q[i] : i \in DOMAIN q}
Ids(set) == {x[1] : x \in set}
Active == {x \in L : x[1] \notin E}
Innermost(set) == CHOOSE x \in set : \A y \in set : y[2] <= x[2]
CondCls == {"WatchNode", "AlarmNode"}
(* Two recorded defects make the block bookkeeping of the rest of a run meaningless; each is reported once, at its root
   cause (C05.injected-block-cannot-be-ended, C04.pending-interrupt-survives-reset-of-its-node), and the block clauses
   are not judged while it lasts: an injected Block holds the lock unseen, or an orphaned interrupt is running. *)
Blind == (\E x \in L : x[4]) \/ stale # {}
InjLock == ""
AsyncCls == {"UodCommandNode", "EngineCommandNode"}
CeilTick(d) == ((d + TickMs - 1) \div TickMs) * TickMs

St == [S |-> S, D |-> D, Fl |-> Fl, A |-> A, X |-> X, F |-> F, L |-> L, E |-> E, R |-> R, RegEver |-> RegEver, began |-> began,
       inited |-> inited, openCmd |-> openCmd, defs |-> defs, running |-> running, justEnded |-> justEnded,
       mustRearm |-> mustRearm, startAt |-> startAt, injPending |-> injPending, Dt |-> Dt, ms |-> ms, tick |-> tick,
       inTick |-> inTick, ranTick |-> ranTick, idle |-> idle, edits |-> edits, pendAct |-> pendAct, p |-> p, tainted |-> tainted, stale |-> stale, calls |-> calls, defsEver |-> defsEver]

Fresh == [S |-> {}, D |-> {}, Fl |-> {}, A |-> {}, X |-> {}, F |-> {}, L |-> {}, E |-> {}, R |-> {}, RegEver |-> {}, began |-> {},
          inited |-> {}, openCmd |-> {}, defs |-> {}, running |-> {}, justEnded |-> {}, mustRearm |-> {}, startAt |-> {},
          injPending |-> {}, Dt |-> {}, ms |-> 0, tick |-> -1, inTick |-> FALSE, ranTick |-> FALSE, idle |-> 0, edits |-> 0,
          pendAct |-> "", p |-> [t |-> -1, started |-> FALSE, runId |-> 0, state |-> "Stopped"], tainted |-> FALSE, stale |-> {}, calls |-> {}, defsEver |-> {}]

Which(e, a, b, c) == IF e.cls = "CallMacroNode" THEN "C41." \o c ELSE IF e.inj THEN "C14." \o b
                     ELSE IF edits > 0 THEN "C01." \o a ELSE "C02." \o b

(* ---- flag assignments inside an interpreter tick ---------------------------------------------------------------- *)
StartOf(n) == CHOOSE x \in startAt : x[1] = n
HasStart(n) == \E x \in startAt : x[1] = n

FlagClauses(e) ==
    LET blocks == SetOfSeq(e.blocks) conds == SetOfSeq(e.conds) IN
    CASE e.f = "started" /\ e.on ->
          << <<Which(e, "reentered-after-edit@", "reentered@", "call-reentered@") \o e.site,
               ~e.same \/ e.cls \in CondCls \/ e.cls = "InjectedNode" \/ e.ws \/ (edits > 0 /\ e.n \notin D)>>,
             <<"C02.order@after-" \o e.prevCls \o e.suffix,
               \/ e.same \/ e.prev = "" \/ e.prev \in (D \cup Fl \cup X \cup RegEver)
               \/ (e.prevCls \in AsyncCls /\ e.prev \in S)
               \/ (e.prevCls = "MacroNode" /\ \E d \in defsEver : d = e.prev)>>,     \* a call resets the flags of the definition it runs      \* commands run in the background once passed to the engine
             <<"C02.parent-started@" \o e.pcls \o e.suffix,
               \/ e.same \/ e.parent = "" \/ e.parent \in S \/ (e.pcls = "MacroNode" /\ e.parent \in running)
               \/ (e.cls \in CondCls /\ e.n \in RegEver)>>,       \* a registered Watch/Alarm lives on after its scope completed
             <<"C04.body-needs-activation@" \o e.pcls \o e.suffix, e.pcls \in CondCls => e.parent \in A>>,
             <<"C04.not-after-cancel@" \o e.site, conds \cap X = {}>>,
             <<(IF conds # {} THEN "C04" ELSE "C05") \o ".not-in-ended-block@" \o e.site,
               Blind \/ e.same \/ e.cls \in CondCls \/ blocks \cap E = {}>>,    \* (a Watch/Alarm "runs" when it is invoked: RecClauses)
             <<"C03.threshold-never-before@" \o e.site, e.same \/ ~e.thr \/ e.reached \/ e.n \in F>>,
             <<"C03.wait-max",
               (~e.same /\ e.prevWaitMs >= 0 /\ HasStart(e.prev) /\ e.prev \in D /\ ~e.thr /\ e.n \notin RegEver
                  /\ StartOf(e.prev)[3] = idle /\ StartOf(e.prev)[4] = edits)
                  => ms - StartOf(e.prev)[2] <= CeilTick(e.prevWaitMs) + TickMs>> >>
      [] e.f \in {"started", "completed", "activated", "block_ended"} /\ ~e.on ->
          << <<(CASE e.f = "block_ended" -> "C05" [] e.f = "activated" -> "C04" [] OTHER -> "C02") \o ".state-reset@" \o e.f \o "-" \o e.site,
               e.same \/ e.rep \/ (e.ws /\ e.trail)>>,     \* interpretation state is cleared only when an alarm / macro body runs again
             <<"C04.pending-interrupt-survives-reset-of-its-node@" \o e.site,     \* the enclosing alarm re-armed / macro was called again
               e.f = "started" => e.n \notin Ids(R)>> >>
      [] e.f = "completed" /\ e.on /\ ~e.same ->
          << <<"C02.completed-needs-started@" \o e.site, e.n \in S \/ e.cls = "MacroNode">>,
             <<(IF e.cls = "CallMacroNode" THEN "C41.call-completed-without-running-the-body@" ELSE "C02.completed-without-running@") \o e.site,
               \* an instruction completes only after it ran in this invocation
               e.tracked /\ e.cls # "MacroNode" => e.n \in began>>,
             <<"C14.injected-completed-without-running-its-lines",      \* injected code runs once: all of it, unless a line of it failed
               e.cls = "InjectedNode" => (SetOfSeq(e.kids) \subseteq S \/ SetOfSeq(e.kids) \cap Fl # {})>>,
             \* a Watch / Alarm run that completes has run its body: every line of it started in this invocation, unless a line
             \* failed or was cancelled by the user, or the enclosing block was ended from inside the body
             <<"C04.body-completed-without-running-its-lines@" \o e.site,
               (e.cls \in CondCls /\ blocks \cap E = {}) =>
                    (SetOfSeq(e.kids) \subseteq S \/ SetOfSeq(e.kids) \cap (Fl \cup X) # {})>>,
             <<"C02.trailing-whitespace-passed@" \o e.site, ~(e.ws /\ e.trail)>>,
             <<"C05.block-completes-only-after-end" \o e.suffix, Blind \/ (e.cls = "BlockNode" => e.n \in E)>>,
             <<"C05.end-block-ends-innermost" \o e.suffix,      \* the innermost locked block, and nothing else, is (or already was) ended
               Blind \/ (e.cls = "EndBlockNode" => (IF L = {} THEN justEnded = {}
                                                     ELSE justEnded \subseteq {Innermost(L)[1]} /\ Innermost(L)[1] \in E))>>,
             <<"C05.end-blocks-ends-all" \o e.suffix, Blind \/ (e.cls = "EndBlocksNode" => Active = {})>> >>
      [] e.f = "activated" /\ e.on ->
          << <<"C04.activated-without-condition@" \o e.site, e.condNow \in {"True", "unknown"} \/ e.n \in F>>,
             <<"C04.activated-after-cancel@" \o e.site, e.n \notin X>>,
             <<"C04.activated-needs-registration@" \o e.site,     \* (an interrupt aborted by End block still gets its turn in that tick)
               e.n \in Ids(R) \/ blocks \cap E # {}>> >>
      [] e.f = "lock_acquired" /\ e.on ->
          << <<"C05.injected-block-cannot-be-ended", ~e.inj>>,      \* it is invisible to End block and to the lock of other blocks
             <<"C05.locked-blocks-form-a-chain" \o e.suffix, Blind \/ e.inj \/ Ids(L) \subseteq blocks>>,
             <<"C05.lock-in-ended-block" \o e.suffix, Blind \/ e.inj \/ blocks \cap E = {}>> >>
      [] e.f = "lock_acquired" /\ ~e.on ->
          << <<"C05.lock-released-only-after-end", Blind \/ e.n \in E \/ e.rep>> >>
      [] e.f = "block_ended" /\ e.on ->
          << <<"C05.ended-block-was-active", Blind \/ e.n \in Ids(Active)>>,
             <<"C05.end-block-ends-innermost", Blind \/ e.cls # "BlockNode" \/ (L # {} => Innermost({x \in L : x[1] \notin E \/ x[1] = e.n})[1] = e.n)>> >>
      [] e.f = "run_started_count" ->
          << <<"C41.recursed", e.n \notin running>>,
             <<"C41.runs-latest-definition", <<e.args, e.n>> \in defs>> >>
      [] OTHER -> <<>>

Without(set, n) == {x \in set : x[1] # n}
LegitReset(e) == e.phase # "run" \/ e.rep \/ (e.ws /\ e.trail)

FlagUpdate(s, e) ==
    LET n == e.n IN
    CASE e.f = "started" /\ e.on ->
            LET isCall == e.cls = "CallMacroNode" /\ ~e.same /\ (\E d \in s.defs : d[1] = e.args)
                m == IF isCall THEN (CHOOSE d \in s.defs : d[1] = e.args)[2] ELSE ""
                \* (by name as well: the definition a call runs is looked up when the call executes, one tick after it was flagged
                \*  started, and may have been redefined in between)
                others == {c[1] : c \in {x \in s.calls : x[2] = m \/ x[3] = e.args}}
            IN [s EXCEPT !.S = @ \cup {n}, !.injPending = @ \ {n},
                         !.calls = IF isCall THEN @ \cup {<<n, m, e.args>>} ELSE @,
                         !.stale = IF isCall /\ others # {} THEN @ \cup others \cup {n} ELSE @]
      [] e.f = "started" /\ ~e.on /\ ~LegitReset(e) -> s           \* reported by the state-reset clause; the monitor keeps what it knows
      [] e.f = "completed" /\ ~e.on /\ ~LegitReset(e) -> s
      [] e.f = "block_ended" /\ ~e.on /\ ~LegitReset(e) -> s
      \* a reset ends the invocation: a force or a cancel belonged to it and does not carry over to the next one, whatever the
      \* node's flags say
      [] e.f = "started" /\ ~e.on -> [s EXCEPT !.S = @ \ {n}, !.began = @ \ {n}, !.inited = @ \ {n}, !.calls = Without(@, n),
                                                !.F = @ \ {n}, !.X = @ \ {n},
                                                !.stale = IF e.phase = "run" /\ n \in Ids(s.R) THEN @ \cup {n} ELSE @]
      [] e.f = "completed" /\ e.on -> [s EXCEPT !.D = @ \cup {n}, !.calls = Without(@, n),
                                                !.Dt = IF e.tracked /\ ({n} \cup SetOfSeq(e.conds)) \cap s.stale = {} THEN @ \cup {n} ELSE @,
                                                !.justEnded = IF e.cls \in {"EndBlockNode", "EndBlocksNode"} THEN {} ELSE @]
      [] e.f = "completed" /\ ~e.on -> [s EXCEPT !.D = @ \ {n}, !.Dt = @ \ {n}]
      [] e.f = "failed" -> [s EXCEPT !.Fl = IF e.on THEN @ \cup {n} ELSE @ \ {n}, !.calls = IF e.on THEN Without(@, n) ELSE @]
      [] e.f = "cancelled" -> [s EXCEPT !.X = IF e.on THEN @ \cup {n} ELSE @ \ {n}]
      [] e.f = "forced" -> [s EXCEPT !.F = IF e.on THEN @ \cup {n} ELSE @ \ {n}]
      [] e.f = "activated" -> [s EXCEPT !.A = IF e.on THEN @ \cup {n} ELSE @ \ {n},
                                        !.pendAct = IF e.on /\ s.pendAct = n THEN "" ELSE @]
      [] e.f = "lock_acquired" -> [s EXCEPT !.L = IF e.on THEN @ \cup {<<n, e.depth, e.name, e.inj>>} ELSE Without(@, n)]
      [] e.f = "block_ended" -> [s EXCEPT !.E = IF e.on THEN @ \cup {n} ELSE @ \ {n},
                                          !.justEnded = IF e.on THEN @ \cup {n} ELSE @]
      [] e.f = "interrupt_registered" ->
            [s EXCEPT !.R = IF e.on THEN @ \cup {<<n, SetOfSeq(e.blocks)>>} ELSE Without(@, n),
                      !.RegEver = IF e.on THEN @ \cup {n} ELSE @]
      [] e.f = "run_count" -> [s EXCEPT !.mustRearm = @ \cup {<<n, SetOfSeq(e.blocks)>>}]
      [] e.f = "run_started_count" -> [s EXCEPT !.running = @ \cup {n}]
      [] e.f = "run_completed_count" -> [s EXCEPT !.running = @ \ {n}]
      [] OTHER -> s

(* ---- run-log records, thresholds, conditions, commands --------------------------------------------------------------- *)
RecClauses(e) ==
    IF e.state = "started" THEN
      << <<Which(e, "rerun-after-edit@", "ran-twice@", "call-ran-twice@") \o e.site,
           e.n \notin began \/ (e.cls = "InterpreterCommandNode" /\ e.ins = "Wait" /\ edits > 0 /\ e.n \notin D)>>,
         <<"C03.wait-min",      \* the instruction after a Wait begins to execute no earlier than the duration after the Wait began
           (e.n \notin began /\ e.prevWaitMs >= 0 /\ HasStart(e.prev) /\ e.prev \notin F /\ e.prev \in D)
              => ms - StartOf(e.prev)[2] >= e.prevWaitMs>>,
         <<"C04.invoked-after-its-block-completed@" \o e.site,      \* (in the tick of the End block itself an activated Watch/Alarm
           \* still records its invocation, with no body line: judged by not-in-ended-block; after the block completed it must not)
           Blind \/ (e.cls \in CondCls => SetOfSeq(e.blocks) \cap E \cap D = {})>> >>
    ELSE <<>>

ThrClauses(e) ==
    << <<"C03.threshold-no-later@" \o e.site, ~(e.awaiting /\ e.reached)>>,
       <<"C03.threshold-never-before@" \o e.site, e.awaiting \/ e.reached \/ e.forced \/ e.completed>> >>

TaClauses(e) == <<>>

CmdClauses(e) ==
    IF e.e = "init" /\ e.n # ""
    THEN << <<(IF e.inj THEN "C14.injected-command-twice@" ELSE IF edits > 0 THEN "C01.command-reinit-after-edit@"
               ELSE "C02.command-twice@") \o e.name \o e.suffix, e.n \notin inited>> >>
    ELSE <<>>

(* ---- tick end ------------------------------------------------------------------------------------------------------------ *)
RunLogClauses(rl) ==
    << <<"C15.ordered-by-start", \A i \in 1..(Len(rl) - 1) : rl[i].start <= rl[i + 1].start>>,
       <<"C15.distinct-ids", \A i, j \in DOMAIN rl : i # j => rl[i].id # rl[j].id>>,
       <<"C15.no-end-before-start", \A i \in DOMAIN rl : rl[i].end = -1 \/ rl[i].end >= rl[i].start>>,
       <<"C15.closed-item-has-end", \A i \in DOMAIN rl : rl[i].state \in {"completed", "failed", "cancelled"} => rl[i].end # -1>>,
       \* the same statement on the flags the run-log message carries (it has no state field): a line shown as cancelled or failed
       \* has ended and offers nothing
       \* (every visit takes one tick between creating its item and acting - NodeVisitorGeneric.visit yields first - so the item of
       \*  a visit to a line that was cancelled already is concluded one interpreter tick after it appears: judged from the second
       \*  sample on, at ticks in which the interpreter ran - while the run is paused or held nothing is concluded)
       <<"C15.cancelled-or-failed-line-is-closed",
         LET Open(x) == (x.cancelled \/ x.failed) /\ ~(x.end # -1 /\ ~x.cancellable /\ ~x.forcible)
             prl == IF "rl" \in DOMAIN p THEN p.rl ELSE <<>>
         IN (ranTick /\ stale = {}) =>        \* (not judged once an orphaned interrupt is present: reported at its root cause)
                \A i \in DOMAIN rl : Open(rl[i]) => ~\E j \in DOMAIN prl : prl[j].id = rl[i].id /\ Open(prl[j])>>,
       <<"C15.closed-item-offers-nothing",
         \A i \in DOMAIN rl : rl[i].state \in {"completed", "failed", "cancelled"} => ~rl[i].cancellable /\ ~rl[i].forcible>> >>

TickEndClauses(e) ==
    << <<"C05.block-tag-names-innermost",
         Blind \/ (e.started => IF Active = {} THEN e.block \in {"none", ""} ELSE e.block = Innermost(Active)[3])>>,
       <<"C05.pending-interrupts-end-with-block", Blind \/ \A r \in R : r[2] \cap E = {}>>,
       <<"C04.alarm-rearms", \A a \in mustRearm : a[2] \cap E # {} \/ a[1] \in Ids(R) \/ a[1] \in stale>>,
       <<"C04.true-condition-activates", pendAct = "">>,
       <<"C14.injected-starts-at-next-tick", ranTick => injPending = {}>>,
       <<"C14.injected-command-abandoned",
         (e.state = "Running" /\ p.state = "Running") => \A c \in openCmd : c[3] >= e.t - 1>>,
       <<"C15.producible", e.rlexc = "none">>,
       <<"C15.completed-instruction-has-completed-item", e.started => Dt \subseteq SetOfSeq(e.doneNodes)>> >>
    \o RunLogClauses(e.rl)

(* ---- requests --------------------------------------------------------------------------------------------------------------- *)
EditClauses(e) ==
    LET touched == SetOfSeq(e.changed) \cup SetOfSeq(e.removed)
        preS == (SetOfSeq(e.preF.started) \cup SetOfSeq(e.preF.completed)) \ SetOfSeq(e.preF.failed)    \* a failed line may be repaired
        live == p.started /\ "root" \in SetOfSeq(e.preF.started)
        macroHit == touched \cap SetOfSeq(e.macroLines) # {} \/ e.addedInMacro      \* changed, removed or extended
        Keeps(k) == SetOfSeq(e.preF[k]) \subseteq SetOfSeq(e.postF[k])
        preM == e.preM postM == e.postM
        op == e.op \o (IF edits > 0 \/ tainted THEN "-after-edit" ELSE "")
    IN
    << <<"C01.started-line-change-rejected@" \o op, (live /\ touched \cap preS # {}) => e.res = "rejected">>,
       <<"C41.started-macro-change-rejected@" \o op, (live /\ macroHit) => e.res = "rejected">>,
       <<"C01.rejected-edit-changes-nothing@" \o op, e.res = "rejected" => e.unchanged>>,
       <<"C01.unstarted-change-accepted@" \o op, (live /\ touched \cap preS = {} /\ ~macroHit) => e.res # "rejected">>,
       <<"C01.live-edit-merges@" \o op, live => e.res \in {"merge_method", "rejected"}>>,
       <<"C01.progress-kept@" \o op,
         (live /\ e.res # "rejected") => Keeps("started") /\ Keeps("completed") /\ Keeps("failed") /\ Keeps("activated")
                                          /\ Keeps("locked") /\ Keeps("ended") /\ Keeps("cancelled") /\ Keeps("forced")>>,
       <<"C01.pending-interrupts-kept@" \o op, (live /\ e.res # "rejected") => Keeps("registered")>>,
       <<"C01.reported-method-state-kept@" \o op,
         (live /\ e.res # "rejected" /\ ~preM.exc) =>
             /\ ~postM.exc
             /\ SetOfSeq(preM.executed) \subseteq SetOfSeq(postM.executed)
             /\ SetOfSeq(preM.started) \subseteq SetOfSeq(postM.started) \cup SetOfSeq(postM.executed)
             /\ SetOfSeq(preM.failed) \subseteq SetOfSeq(postM.failed)>> >>

StateKept(e) == \A k \in {"started", "completed", "failed", "activated", "locked", "ended", "cancelled", "forced", "registered"} :
                    SetOfSeq(e.preF[k]) \subseteq SetOfSeq(e.postF[k])

Resync(s, e) ==
    IF ~StateKept(e) THEN [Fresh EXCEPT !.p = s.p, !.tick = s.tick, !.ms = s.ms, !.idle = s.idle, !.edits = s.edits + 1, !.tainted = TRUE]
    ELSE
    [s EXCEPT !.S = SetOfSeq(e.postF.started), !.D = SetOfSeq(e.postF.completed), !.Fl = SetOfSeq(e.postF.failed),
              !.A = SetOfSeq(e.postF.activated), !.X = SetOfSeq(e.postF.cancelled), !.F = SetOfSeq(e.postF.forced),
              !.E = SetOfSeq(e.postF.ended),
              !.L = {<<x.n, x.depth, x.name, x.inj>> : x \in SetOfSeq(e.postLocked)},
              !.R = {<<x.n, SetOfSeq(x.blocks)>> : x \in SetOfSeq(e.postReg)},
              !.RegEver = @ \cup {x.n : x \in SetOfSeq(e.postReg)},
              !.Dt = @ \cap SetOfSeq(e.postF.completed),
              !.began = @ \cap (SetOfSeq(e.postF.started) \cup SetOfSeq(e.postF.completed)),
              !.inited = @ \cap (SetOfSeq(e.postF.started) \cup SetOfSeq(e.postF.completed)),
              !.running = @ \cap SetOfSeq(e.postF.macroStarted),
              !.edits = IF e.res = "merge_method" THEN @ + 1 ELSE @]

InjectClauses(e) ==
    << <<"C14.injection-leaves-method-state-alone",
         e.preM.exc \/ (/\ SetOfSeq(e.preM.started) = SetOfSeq(e.postM.started)
                        /\ SetOfSeq(e.preM.executed) = SetOfSeq(e.postM.executed)
                        /\ SetOfSeq(e.preM.failed) = SetOfSeq(e.postM.failed))>> >>

Judge(clauses) == IF tainted THEN viols ELSE AddViols(viols, Failing(clauses), l)
Orphan(e) == ({e.n} \cup SetOfSeq(e.conds)) \cap stale # {}
(* two calls of one macro in progress at the same time (one from a Watch/Alarm): they share a single invocation of the body *)
NamesOf(m) == {c[3] : c \in {x \in calls : x[2] = m}}
Overlapped(m) == Cardinality({c \in calls : c[2] = m \/ c[3] \in NamesOf(m)}) >= 2
Shared(e) == \/ e.macro # "" /\ Overlapped(e.macro)
             \/ e.cls = "CallMacroNode" /\ \E c \in calls : c[1] = e.n /\ Overlapped(c[2])
SharedClause == << <<"C41.overlapping-calls-share-one-invocation", FALSE>> >>

(* ---- the step -------------------------------------------------------------------------------------------------------------- *)
(* which antecedents hold at this event (evaluated in the state before the event); vacuity guard, see TraceLib *)
Witness(e) ==
    CASE e.e = "fl" /\ e.phase = "run" /\ e.known ->
            (IF e.f = "started" /\ e.on /\ ~e.same THEN {"line-started:" \o e.cls} ELSE {}) \cup
            (IF e.f = "started" /\ e.on /\ ~e.same /\ e.thr THEN {"thresholded-line-started"} ELSE {}) \cup
            (IF e.f = "started" /\ e.on /\ ~e.same /\ e.prevWaitMs >= 0 THEN {"line-after-wait-started"} ELSE {}) \cup
            (IF e.f = "started" /\ e.on /\ ~e.same /\ e.pcls \in CondCls THEN {"watch-or-alarm-body-line-started"} ELSE {}) \cup
            (IF e.f = "started" /\ e.on /\ ~e.same /\ e.inj THEN {"injected-line-started"} ELSE {}) \cup
            (IF e.f = "started" /\ e.on /\ ~e.same /\ edits > 0 THEN {"line-started-after-live-edit"} ELSE {}) \cup
            (IF e.f = "started" /\ ~e.on /\ ~e.same THEN {"line-reset:" \o (IF e.rep THEN "in-repeated-body" ELSE "elsewhere")} ELSE {}) \cup
            (IF e.f = "completed" /\ e.on /\ ~e.same THEN {"line-completed:" \o e.cls} ELSE {}) \cup
            (IF e.f = "completed" /\ e.on /\ ~e.same /\ e.cls = "InjectedNode" /\ e.kids # <<>> THEN {"injected-code-completed"} ELSE {}) \cup
            (IF e.f = "activated" /\ e.on THEN {"activated:" \o e.cls} ELSE {}) \cup
            (IF e.f = "lock_acquired" /\ e.on THEN {"block-lock-taken-at-depth-" \o ToString(e.depth)} ELSE {}) \cup
            (IF e.f = "block_ended" /\ e.on THEN {"block-ended"} ELSE {}) \cup
            (IF e.f = "block_ended" /\ e.on /\ \E r \in R : e.n \in r[2] THEN {"block-ended-with-pending-interrupt"} ELSE {}) \cup
            (IF e.f = "run_started_count" THEN {"macro-invocation"} ELSE {})
      [] e.e = "edit" -> {"edit-" \o e.op \o "-" \o (IF e.res = "rejected" THEN "rejected" ELSE "accepted")} \cup
                         (IF e.addedInMacro THEN {"edit-extends-started-macro"} ELSE {})
      [] e.e = "inject" -> {"inject-" \o (IF e.res = "ok" THEN "accepted" ELSE "rejected")}
      [] e.e = "ta" -> {"condition-evaluated-" \o e.condNow} \cup (IF e.forced THEN {"forced-condition"} ELSE {})
      [] e.e = "thr" -> (IF e.forced THEN {"forced-threshold"} ELSE {})
      [] e.e = "te" -> (IF mustRearm # {} THEN {"alarm-run-completed"} ELSE {}) \cup
                       (IF injPending # {} THEN {"tick-with-pending-injection"} ELSE {}) \cup
                       (IF stale # {} THEN {"orphaned-interrupt-present"} ELSE {}) \cup
                       (IF tainted THEN {"tainted-by-live-edit"} ELSE {})
      [] OTHER -> {}

Apply(s) ==
    /\ S' = s.S /\ D' = s.D /\ Fl' = s.Fl /\ A' = s.A /\ X' = s.X /\ F' = s.F /\ L' = s.L /\ E' = s.E /\ R' = s.R
    /\ RegEver' = s.RegEver /\ began' = s.began /\ inited' = s.inited /\ openCmd' = s.openCmd /\ defs' = s.defs
    /\ running' = s.running /\ justEnded' = s.justEnded /\ mustRearm' = s.mustRearm /\ startAt' = s.startAt
    /\ injPending' = s.injPending /\ Dt' = s.Dt /\ ms' = s.ms /\ tick' = s.tick /\ inTick' = s.inTick /\ ranTick' = s.ranTick
    /\ idle' = s.idle /\ edits' = s.edits /\ pendAct' = s.pendAct /\ p' = s.p /\ tainted' = s.tainted /\ stale' = s.stale /\ calls' = s.calls /\ defsEver' = s.defsEver

TInit == /\ S = {} /\ D = {} /\ Fl = {} /\ A = {} /\ X = {} /\ F = {} /\ L = {} /\ E = {} /\ R = {} /\ RegEver = {}
         /\ began = {} /\ inited = {} /\ openCmd = {} /\ defs = {} /\ running = {} /\ justEnded = {} /\ mustRearm = {}
         /\ startAt = {} /\ injPending = {} /\ Dt = {} /\ ms = 0 /\ tick = -1 /\ inTick = FALSE /\ ranTick = FALSE /\ idle = 0
         /\ edits = 0 /\ pendAct = "" /\ p = Fresh.p /\ tainted = FALSE /\ stale = {} /\ calls = {} /\ defsEver = {}
         /\ tid \in 1..Len(Traces) /\ l = 1 /\ viols = {} /\ done = FALSE /\ seen = {}

Step ==
    /\ l <= Len(T)
    /\ LET e == T[l] s == St IN
       CASE e.e = "tb" -> /\ Apply([s EXCEPT !.ms = e.ms, !.tick = e.t]) /\ UNCHANGED viols
         [] e.e = "it" -> /\ Apply([s EXCEPT !.inTick = TRUE, !.ranTick = TRUE]) /\ UNCHANGED viols
         [] e.e = "ie" -> /\ Apply([s EXCEPT !.inTick = FALSE]) /\ UNCHANGED viols
         [] e.e = "fl" ->
              IF e.phase = "edit" THEN Apply(s) /\ UNCHANGED viols
              ELSE /\ viols' = IF e.phase = "run" /\ e.known /\ ~Orphan(e) THEN Judge(IF Shared(e) THEN SharedClause ELSE FlagClauses(e)) ELSE viols
                   /\ Apply(FlagUpdate(s, e))
         [] e.e = "rec" ->
              /\ viols' = IF e.known /\ ~Orphan(e) THEN Judge(IF Shared(e) THEN SharedClause ELSE RecClauses(e)) ELSE viols
              /\ Apply(IF e.state = "started"
                       THEN [s EXCEPT !.began = @ \cup {e.n},
                                      !.startAt = IF e.n \in s.began THEN @ ELSE Without(@, e.n) \cup {<<e.n, s.ms, s.idle, s.edits>>},
                                      !.defs = IF e.cls = "MacroNode" THEN {d \in @ : d[1] # e.args} \cup {<<e.args, e.n>>} ELSE @,
                                      !.defsEver = IF e.cls = "MacroNode" THEN @ \cup {e.n} ELSE @]
                       ELSE s)
         [] e.e = "thr" -> /\ viols' = Judge(ThrClauses(e)) /\ Apply(s)
         [] e.e = "ta" ->
              /\ viols' = Judge(TaClauses(e))
              /\ Apply([s EXCEPT !.pendAct = IF e.condNow = "True" /\ ~e.cancelled THEN e.n ELSE @])
         [] e.e \in {"init", "exec", "finalize"} ->
              /\ viols' = IF Orphan(e) THEN viols ELSE Judge(IF Shared(e) THEN SharedClause ELSE CmdClauses(e))
              /\ Apply(CASE e.e = "init" ->
                              [s EXCEPT !.inited = IF e.n = "" THEN @ ELSE @ \cup {e.n},
                                        !.openCmd = IF e.inj /\ e.finite THEN @ \cup {<<e.inst, e.name, s.tick>>} ELSE @]
                         [] e.e = "exec" ->
                              [s EXCEPT !.openCmd = {IF c[1] = e.inst THEN <<c[1], c[2], s.tick>> ELSE c : c \in @}]
                         [] OTHER -> [s EXCEPT !.openCmd = Without(@, e.inst)])
         [] e.e = "edit" ->
              /\ viols' = AddViols(viols, Failing(EditClauses(e)), l)
              /\ Apply(IF e.res = "rejected" THEN s ELSE Resync(s, e))
         [] e.e = "inject" -> /\ viols' = Judge(InjectClauses(e)) /\ Apply(s)
         [] e.e = "injected" ->
              /\ Apply([s EXCEPT !.injPending = IF s.p.started /\ s.p.state = "Running" /\ e.root # "" THEN @ \cup {e.root} ELSE @])
              /\ UNCHANGED viols
         [] e.e = "te" ->
              /\ viols' = Judge(TickEndClauses(e))
              /\ Apply(IF e.runId # p.runId \/ ~e.started
                       THEN [Fresh EXCEPT !.p = e, !.tick = e.t, !.ms = s.ms, !.idle = s.idle]
                       ELSE [s EXCEPT !.p = e, !.ranTick = FALSE, !.mustRearm = {}, !.pendAct = "",
                                      !.idle = IF s.ranTick THEN @ ELSE @ + 1,
                                      !.injPending = IF s.ranTick THEN {} ELSE @])
         [] OTHER -> /\ Apply(s) /\ UNCHANGED viols      \* ctl, cf
    /\ l' = l + 1 /\ seen' = seen \cup Witness(T[l]) /\ UNCHANGED <<tid, done>>

Finish == /\ l = Len(T) + 1 /\ ~done /\ done' = TRUE /\ ReportW(Traces[tid].id, l - 1, viols, seen) /\ UNCHANGED <<mvars, seen, tid, l, viols>>
TSpec == TInit /\ [][Step \/ Finish]_tvars
=============================================================================
