------------------------------ MODULE LineGrammar ------------------------------
(***************************************************************************)
(* The P-code line grammar (C18): a line is composed of indentation, an    *)
(* optional threshold, an instruction name, an optional argument and an    *)
(* optional comment; Watch / Alarm / Simulate arguments are composed of    *)
(* tag, operator, value and optional unit.  TLC enumerates the product of  *)
(* the part pools (the initial states) with the composed text; the parser  *)
(* must give back exactly the parts.                                       *)
(***************************************************************************)
EXTENDS Naturals, Sequences, TLC

None == "<none>"
Indents == {"", "    ", "        "}
Thresholds == {None, "1", "2.5", "0.25"}
Names == {"Mark", "Wait", "End block", "Inlet valve 2", "Run counter", "x"}
Args == {None, "A", "5 s", "a b  c", "1.5 L/h", "Open+Closed"}
CommentSeps == {" # ", "# ", " #", "   #   "}
Comments == {None, "", "c", "a # b : c"}

CondNames == {"Watch", "Alarm", "Simulate"}
CondTags == {"A", "Run Counter", "Block Time 2"}
Ops(name) == IF name = "Simulate" THEN {"="} ELSE {"<", "<=", "=", "==", "!=", ">", ">="}
NumValues == {"1", "0.5", "-3", "2e3"}
StrValues == {"abc", "Open", "VA01 on"}
Units == {None, "L/h", "%", "m2", "s"}
Spaces == {"", " "}
Tails == {"", " ", "  # c", "# c"}

VARIABLES kind, parts, line
vars == <<kind, parts, line>>

Opt(prefix, x, suffix) == IF x = None THEN "" ELSE prefix \o x \o suffix

ComposeGeneral(p) ==
    p.indent \o Opt("", p.threshold, " ") \o p.name \o Opt(": ", p.argument, "")
             \o (IF p.comment = None THEN "" ELSE p.sep \o p.comment)

ComposeCond(p) ==
    p.indent \o Opt("", p.threshold, " ") \o p.name \o ": " \o p.tag \o p.sp1 \o p.op \o p.sp2 \o p.value
             \o (IF p.unit = None THEN "" ELSE p.sp3 \o p.unit) \o p.tail

General == [indent : Indents, threshold : Thresholds, name : Names, argument : Args, sep : CommentSeps, comment : Comments]
Cond == [indent : {"", "    "}, threshold : {None, "2.5"}, name : CondNames, tag : CondTags, op : {"<", "<=", "=", "==", "!=", ">", ">="},
         sp1 : Spaces, sp2 : Spaces, value : NumValues \cup StrValues, sp3 : Spaces, unit : Units, tail : Tails]
(* a general line is unambiguous only if the separator is canonical when there is no comment *)
WellFormedGeneral(p) == p.comment = None => p.sep = " # "

Init == \/ /\ kind = "general" /\ parts \in {p \in General : WellFormedGeneral(p)} /\ line = ComposeGeneral(parts)
        \/ /\ kind = "cond"
           /\ parts \in {p \in Cond : p.op \in Ops(p.name) /\ (p.value \in StrValues => p.unit = None) /\ p.sp1 = p.sp2
                                       /\ (p.unit = None => p.sp3 = "")}
           /\ line = ComposeCond(parts)
Next == UNCHANGED vars
Spec == Init /\ [][Next]_vars

(* what the parser must report *)
ExpectedComment(p) == IF p.comment = None THEN "" ELSE p.comment
=============================================================================
