---------------------------- MODULE LineGrammarTrace ----------------------------
(* Compares what the real PcodeParser recovers from each composed line with the parts it was composed of (C18).        *)
(* Event: [kind, parts, line, exc, got |-> [indent, threshold, name, arguments, comment, hasComment, tag, op, value, unit]] *)
EXTENDS LineGrammar, TraceLib
VARIABLES tid, l, viols, done
tvars == <<vars, tid, l, viols, done>>
T == Traces[tid].ev

IndentWidth(s) == CASE s = "" -> 0 [] s = "    " -> 4 [] s = "        " -> 8
OrEmpty(x) == IF x = None THEN "" ELSE x
P(e) == [k \in DOMAIN e.parts |-> e.parts[k]]

Clauses(e) ==
    LET p == e.parts  g == e.got  ok == e.exc = "none" IN
    IF e.kind = "general" THEN
    << <<"C18.no-raise", ok>>,
       <<"C18.composed-text", e.line = ComposeGeneral(p)>>,
       <<"C18.indentation", ~ok \/ g.indent = IndentWidth(p.indent)>>,
       <<"C18.threshold", ~ok \/ g.threshold = OrEmpty(p.threshold)>>,
       <<"C18.instruction-name", ~ok \/ g.name = p.name>>,
       <<"C18.argument", ~ok \/ g.arguments = OrEmpty(p.argument)>>,
       <<"C18.comment", ~ok \/ (g.hasComment = (p.comment # None) /\ g.comment = OrEmpty(p.comment))>> >>
    ELSE
    << <<"C18.no-raise", ok>>,
       <<"C18.composed-text", e.line = ComposeCond(p)>>,
       <<"C18.indentation", ~ok \/ g.indent = IndentWidth(p.indent)>>,
       <<"C18.threshold", ~ok \/ g.threshold = OrEmpty(p.threshold)>>,
       <<"C18.instruction-name", ~ok \/ g.name = p.name>>,
       <<"C18.condition-tag", ~ok \/ g.tag = p.tag>>,
       <<"C18.condition-operator", ~ok \/ g.op = p.op>>,
       <<"C18.condition-value", ~ok \/ g.value = p.value>>,
       <<"C18.condition-unit", ~ok \/ g.unit = OrEmpty(p.unit)>> >>

TInit == kind = "" /\ parts = <<>> /\ line = "" /\ tid \in 1..Len(Traces) /\ l = 1 /\ viols = {} /\ done = FALSE
Step == /\ l <= Len(T) /\ viols' = AddViols(viols, Failing(Clauses(T[l])), l) /\ l' = l + 1 /\ UNCHANGED <<vars, tid, done>>
Finish == /\ l = Len(T) + 1 /\ ~done /\ done' = TRUE /\ Report(Traces[tid].id, l - 1, viols) /\ UNCHANGED <<vars, tid, l, viols>>
TSpec == TInit /\ [][Step \/ Finish]_tvars
=============================================================================
