------------------------------ MODULE MethodSave ------------------------------
(***************************************************************************)
(* Optimistic method saves (C31).  A save carries the version it was based *)
(* on; the aggregator checks it against the current version, forwards the  *)
(* method to the engine (an await: other requests run meanwhile) and then  *)
(* commits version + 1.                                                    *)
(*                                                                         *)
(* Serialized = FALSE is the protocol with nothing held across the engine  *)
(* round trip: TLC finds the lost update (two saves on one base both       *)
(* accepted).  Serialized = TRUE holds a per-unit lock from check to       *)
(* commit; the invariants hold.  The unserialized graph is also the source *)
(* of the interleavings replayed on the real code.                         *)
(***************************************************************************)
EXTENDS Naturals, FiniteSets, TLC

CONSTANTS Saves,        \* e.g. {1, 2, 3}
          Serialized,
          MaxBase       \* a save may be based on version 0..MaxBase

VARIABLES version,      \* current method version at the aggregator
          phase,        \* [Saves -> "idle" | "waiting" | "atEngine" | "accepted" | "rejected" | "failed"]
          base,         \* [Saves -> version the save was based on]
          holder,       \* save holding the lock (0 = none); only used when Serialized
          last          \* <<action, args>>
vars == <<version, phase, base, holder, last>>

(* the save request arrives: version check, then the method goes to the engine *)
Start(i, b) ==
    /\ phase[i] = "idle"
    /\ base' = [base EXCEPT ![i] = b]
    /\ last' = <<"Start", <<i, b>> >>
    /\ IF Serialized /\ holder # 0
       THEN phase' = [phase EXCEPT ![i] = "waiting"] /\ UNCHANGED <<version, holder>>
       ELSE IF b # version
            THEN phase' = [phase EXCEPT ![i] = "rejected"] /\ UNCHANGED <<version, holder>>
            ELSE phase' = [phase EXCEPT ![i] = "atEngine"] /\ holder' = (IF Serialized THEN i ELSE 0) /\ UNCHANGED version

(* the lock is passed on: the next waiting save makes its version check now *)
Release(ph) ==
    LET W == {j \in Saves : ph[j] = "waiting"} IN
    IF ~Serialized \/ W = {} THEN <<ph, 0>>
    ELSE LET j == CHOOSE k \in W : \A m \in W : k <= m IN
         IF base[j] = version' THEN <<[ph EXCEPT ![j] = "atEngine"], j>> ELSE <<[ph EXCEPT ![j] = "rejected"], 0>>

(* the engine answers; on success the save is committed *)
Reply(i, ok) ==
    /\ phase[i] = "atEngine"
    /\ last' = <<"Reply", <<i, ok>> >>
    /\ version' = IF ok THEN version + 1 ELSE version
    /\ LET ph == [phase EXCEPT ![i] = IF ok THEN "accepted" ELSE "failed"]
           r == Release(ph) IN
       /\ phase' = r[1] /\ holder' = r[2]
    /\ UNCHANGED base

Init == version = 1 /\ phase = [i \in Saves |-> "idle"] /\ base = [i \in Saves |-> 0] /\ holder = 0 /\ last = <<"Init", <<>> >>
Next == \/ \E i \in Saves, b \in 0..MaxBase : Start(i, b)
        \/ \E i \in Saves, ok \in BOOLEAN : Reply(i, ok)
Spec == Init /\ [][Next]_vars

Accepted == {i \in Saves : phase[i] = "accepted"}
AtMostOneAcceptedPerBase == \A i, j \in Accepted : base[i] = base[j] => i = j
VersionCountsAccepted == version = 1 + Cardinality(Accepted)
AcceptedOnlyOnCurrent == [][\A i \in Saves : phase[i] # "accepted" /\ phase'[i] = "accepted" => base[i] = version]_vars
=============================================================================
