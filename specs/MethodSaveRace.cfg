CONSTANTS
  Saves = {1, 2, 3}
  Serialized = FALSE
  MaxBase = 2
SPECIFICATION Spec
INVARIANT AtMostOneAcceptedPerBase
INVARIANT VersionCountsAccepted
PROPERTY AcceptedOnlyOnCurrent
CHECK_DEADLOCK FALSE
