CONSTANTS
  Saves = {1, 2, 3}
  Serialized = FALSE
  MaxBase = 2
SPECIFICATION Spec
CHECK_DEADLOCK FALSE
