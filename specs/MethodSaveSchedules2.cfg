CONSTANTS
  Saves = {1, 2}
  Serialized = FALSE
  MaxBase = 2
SPECIFICATION Spec
CHECK_DEADLOCK FALSE
