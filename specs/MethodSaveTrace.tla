---------------------------- MODULE MethodSaveTrace ----------------------------
(* Monitor for recorded interleavings of concurrent save_method calls on the real aggregator (C31).                      *)
(* Events: [a |-> "start", i, b, done, postVersion]   done = <<[i, res, ret]>> saves that completed during this step      *)
(*         [a |-> "reply", i, ok, done, postVersion]                                                                      *)
(*         [a |-> "end", pending |-> <<i>>]            saves still unfinished after every engine request was answered     *)
EXTENDS Naturals, Sequences, FiniteSets, TLC, TraceLib

VARIABLES version, baseOf, acceptedBases, tid, l, viols, done
tvars == <<version, baseOf, acceptedBases, tid, l, viols, done>>
T == Traces[tid].ev

Acc(e) == {k \in DOMAIN e.done : e.done[k].res = "accepted"}

Clauses(e) ==
    IF e.a = "end" THEN << <<"C31.every-save-completes", e.pending = <<>> >> >>
    ELSE LET b2 == IF e.a = "start" THEN [baseOf EXCEPT ![e.i] = e.b] ELSE baseOf
             nAcc == Cardinality(Acc(e)) IN
    << <<"C31.accepted-only-on-current-version",
            \A k \in Acc(e) : b2[e.done[k].i] = version>>,
       <<"C31.at-most-one-accepted-per-base",
            /\ \A k \in Acc(e) : b2[e.done[k].i] \notin acceptedBases
            /\ \A k, m \in Acc(e) : b2[e.done[k].i] = b2[e.done[m].i] => k = m>>,
       <<"C31.version-steps-by-one", e.postVersion = version + nAcc>>,
       <<"C31.returned-version", \A k \in Acc(e) : e.done[k].ret = b2[e.done[k].i] + 1>>,
       <<"C31.failed-engine-means-not-accepted",
            e.a # "reply" \/ e.ok \/ \A k \in DOMAIN e.done : e.done[k].i = e.i => e.done[k].res # "accepted">> >>

TInit == /\ version = 1 /\ baseOf = [i \in 1..3 |-> 0] /\ acceptedBases = {}
         /\ tid \in 1..Len(Traces) /\ l = 1 /\ viols = {} /\ done = FALSE
Step == /\ l <= Len(T)
        /\ LET e == T[l] IN
           /\ viols' = AddViols(viols, Failing(Clauses(e)), l)
           /\ IF e.a = "end" THEN UNCHANGED <<version, baseOf, acceptedBases>>
              ELSE LET b2 == IF e.a = "start" THEN [baseOf EXCEPT ![e.i] = e.b] ELSE baseOf IN
                   /\ baseOf' = b2
                   /\ version' = e.postVersion          \* continue from the implementation's version
                   /\ acceptedBases' = acceptedBases \cup {b2[e.done[k].i] : k \in Acc(e)}
        /\ l' = l + 1 /\ UNCHANGED <<tid, done>>
Finish == /\ l = Len(T) + 1 /\ ~done /\ done' = TRUE /\ Report(Traces[tid].id, l - 1, viols)
          /\ UNCHANGED <<version, baseOf, acceptedBases, tid, l, viols>>
TSpec == TInit /\ [][Step \/ Finish]_tvars
=============================================================================
