CONSTANTS
  Indents = {0, 2, 4, 8, 12}
  MaxLines = 3
SPECIFICATION Spec
INVARIANT ParentIsEnclosingOpener
INVARIANT RootHasIndentZero
INVARIANT JudgedUpToFirstOffender
CHECK_DEADLOCK FALSE
