-------------------------------- MODULE PCode --------------------------------
(***************************************************************************)
(* Indentation structure of P-code (C17) as a reference operator.          *)
(* A line is <<indent, class>>: class "O" opens a body (Block, Watch,      *)
(* Alarm, Macro), "L" is any other instruction, "B" a blank line, "C" a    *)
(* comment.  Blank and comment lines do not take part in the structure.    *)
(* Walk(lines) yields, for every instruction line up to and including the  *)
(* first offending one, its parent line (0 = the program) -- or marks it   *)
(* as the first line whose indentation is not allowed.                     *)
(***************************************************************************)
EXTENDS Integers, Sequences, FiniteSets, TLC

Instr(c) == c \in {"O", "L"}

(* state of the walk: parent[i] (0 root, -1 unknown / not judged), first offending line (0 none),
   stack = openers still open as <<line, indent>> innermost last, prev = <<indent, isOpener>> of the last instruction line *)
RECURSIVE Walk(_, _, _)
Walk(lines, i, st) ==
    IF i > Len(lines) \/ st.bad # 0 THEN st
    ELSE LET d == lines[i][1]  c == lines[i][2] IN
         IF ~Instr(c) THEN Walk(lines, i + 1, st)
         ELSE LET havePrev == st.prev # <<>>
                  pInd == IF havePrev THEN st.prev[1] ELSE 0
                  pOpen == havePrev /\ st.prev[2]
                  okIndent == /\ d % 4 = 0
                              /\ IF ~havePrev THEN d = 0
                                 ELSE d <= pInd \/ (d = pInd + 4 /\ pOpen)
              IN IF ~okIndent THEN [st EXCEPT !.bad = i]
                 ELSE LET keep == SelectSeq(st.stack, LAMBDA e : e[2] < d)      \* openers that enclose this line
                          par == IF keep = <<>> THEN 0 ELSE keep[Len(keep)][1]
                          stack2 == IF c = "O" THEN Append(keep, <<i, d>>) ELSE keep
                      IN Walk(lines, i + 1, [st EXCEPT !.parent[i] = par, !.stack = stack2, !.prev = <<d, c = "O">>])

Structure(lines) == Walk(lines, 1, [parent |-> [i \in DOMAIN lines |-> -1], bad |-> 0, stack |-> <<>>, prev |-> <<>>])

(* ---- laws of the reference, checked by TLC over all short texts ---- *)
CONSTANTS Indents, MaxLines
VARIABLE text
Init == text \in UNION {[1..k -> Indents \X {"O", "L", "B", "C"}] : k \in 0..MaxLines}
Next == UNCHANGED text
Spec == Init /\ [][Next]_text

S == Structure(text)
ParentIsEnclosingOpener ==
    \A i \in DOMAIN text : S.parent[i] > 0 =>
        /\ S.parent[i] < i /\ text[S.parent[i]][2] = "O" /\ text[S.parent[i]][1] + 4 = text[i][1]
        /\ \A j \in (S.parent[i] + 1)..(i - 1) : Instr(text[j][2]) => text[j][1] > text[S.parent[i]][1]
RootHasIndentZero == \A i \in DOMAIN text : S.parent[i] = 0 => text[i][1] = 0
JudgedUpToFirstOffender ==
    \A i \in DOMAIN text : Instr(text[i][2]) /\ (S.bad = 0 \/ i < S.bad) => S.parent[i] >= 0
=============================================================================
