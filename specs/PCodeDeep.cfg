CONSTANTS
  Indents = {0, 2, 4, 8, 12}
  MaxLines = 4
SPECIFICATION Spec
INVARIANT ParentIsEnclosingOpener
INVARIANT RootHasIndentZero
INVARIANT JudgedUpToFirstOffender
CHECK_DEADLOCK FALSE
