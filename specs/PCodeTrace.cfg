CONSTANTS
  Indents = {0}
  MaxLines = 0
SPECIFICATION TSpec
CHECK_DEADLOCK FALSE
