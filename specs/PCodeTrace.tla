------------------------------ MODULE PCodeTrace ------------------------------
(* Judges parses produced by the real PcodeParser against PCode!Structure (C17).                                      *)
(* Event: [lines |-> <<<<indent, class>>>> (empty for free text), n |-> number of source lines, exc,                   *)
(*         nodes |-> <<[line, idOk, parent, err]>> in tree (pre-order) order; parent = source line of the parent, 0 root] *)
EXTENDS PCode, TraceLib
VARIABLES tid, l, viols, done
tvars == <<text, tid, l, viols, done>>
T == Traces[tid].ev

Clauses(e) ==
    LET ok == e.exc = "none"
        nodes == e.nodes
        structured == e.lines # <<>>
        st == IF structured THEN Structure(e.lines) ELSE [parent |-> <<>>, bad |-> 0]
        NodeOf(i) == nodes[CHOOSE k \in DOMAIN nodes : nodes[k].line = i]
        complete == ok /\ Len(nodes) = e.n /\ \A i \in 1..e.n : \E k \in DOMAIN nodes : nodes[k].line = i IN
    << <<"C17.never-fails", ok>>,
       <<"C17.one-node-per-line", ~ok \/ complete>>,
       <<"C17.source-order", ~complete \/ \A k \in DOMAIN nodes : nodes[k].line = k>>,
       <<"C17.node-has-line-id", ~complete \/ \A k \in DOMAIN nodes : nodes[k].idOk>>,
       <<"C17.parent-is-enclosing-opener", ~complete \/ ~structured \/
            \A i \in DOMAIN e.lines : st.parent[i] >= 0 /\ (st.bad = 0 \/ i < st.bad) => NodeOf(i).parent = st.parent[i]>>,
       <<"C17.no-error-on-correct-text", ~complete \/ ~structured \/ st.bad # 0 \/
            \A i \in DOMAIN e.lines : Instr(e.lines[i][2]) => ~NodeOf(i).err>>,
       <<"C17.bad-indentation-flagged", ~complete \/ ~structured \/ st.bad = 0 \/ NodeOf(st.bad).err>>,
       \* on the parse tree itself, also after the first offending line: a line that is not flagged, under a parent that is
       \* not flagged, sits exactly one level below that parent (the program: at indentation 0) -- "not silently re-nested"
       <<"C17.unflagged-line-one-level-below-parent", ~complete \/ ~structured \/
            (\E i \in DOMAIN e.lines : e.lines[i][2] = "O" /\ NodeOf(i).err) \/      \* recovery after a flagged opener is not judged
            \A i \in DOMAIN e.lines : Instr(e.lines[i][2]) /\ ~NodeOf(i).err =>
                IF NodeOf(i).parent = 0 THEN e.lines[i][1] = 0
                ELSE NodeOf(NodeOf(i).parent).err \/ e.lines[i][1] = e.lines[NodeOf(i).parent][1] + 4>> >>

TInit == text = <<>> /\ tid \in 1..Len(Traces) /\ l = 1 /\ viols = {} /\ done = FALSE
Step == /\ l <= Len(T) /\ viols' = AddViols(viols, Failing(Clauses(T[l])), l) /\ l' = l + 1 /\ UNCHANGED <<text, tid, done>>
Finish == /\ l = Len(T) + 1 /\ ~done /\ done' = TRUE /\ Report(Traces[tid].id, l - 1, viols) /\ UNCHANGED <<text, tid, l, viols>>
TSpec == TInit /\ [][Step \/ Finish]_tvars
=============================================================================
