------------------------------ MODULE RunState ------------------------------
(***************************************************************************)
(* Engine run-state machine, method clocks and safe outputs                 *)
(* (C06, C07, C08, C09) -- the intended design.                             *)
(*                                                                          *)
(* User control commands are validated against the displayed state when     *)
(* they are requested and executed in the command phase of the next tick.   *)
(* Stop takes two ticks (cancel commands, then stop), Restart three         *)
(* (Restarting, Stopped without run id, Running with a new id).  One output *)
(* register with a safe value is modelled: `out` is the tag value, `hw` the *)
(* value on the device.  The behaviours of this spec are also the command   *)
(* schedules that are replayed on the real engine; the verdict there comes  *)
(* from the monitor RunStateTrace (named clauses on the observed state).    *)
(***************************************************************************)
EXTENDS Naturals, Sequences, FiniteSets, TLC

CONSTANTS MaxCmds,      \* user commands per behaviour
          MaxTicks

Cmds == {"Start", "Stop", "Pause", "Unpause", "Hold", "Unhold", "Restart"}
Safe == "safe"
Vals == {"safe", "v1", "v2"}

VARIABLES started, paused, holding,
          phase,        \* "none" | "stop1" | "restart1" | "restart2" : a Stop / Restart in progress
          state,        \* System State tag
          runId, nextId,
          queue,        \* accepted user commands not yet executed
          pt, rt,       \* Process Time, Run Time (ticks)
          out, hw,      \* output tag value, value on the device
          prev,         \* output value captured by the last effective Pause ("none" if none)
          ncmds, nticks,
          last          \* <<action, args, result>> history
vars == <<started, paused, holding, phase, state, runId, nextId, queue, pt, rt, out, hw, prev, ncmds, nticks, last>>

Display == IF ~started THEN "Stopped" ELSE IF paused THEN "Paused" ELSE IF holding THEN "Holding" ELSE "Running"

Valid(c) ==
    CASE c = "Start" -> state = "Stopped"
      [] c \in {"Stop", "Restart"} -> state \notin {"Stopped", "Restarting"}
      [] c = "Pause" -> state \notin {"Stopped", "Restarting"} /\ ~paused
      [] c = "Unpause" -> state \notin {"Stopped", "Restarting"} /\ paused
      [] c = "Hold" -> state \notin {"Stopped", "Restarting"} /\ ~holding
      [] c = "Unhold" -> state \notin {"Stopped", "Restarting"} /\ holding

UserCmd(c) ==
    /\ ncmds < MaxCmds /\ ncmds' = ncmds + 1
    /\ IF Valid(c) THEN queue' = Append(queue, c) /\ last' = <<"UserCmd", <<c>>, "accepted">>
       ELSE queue' = queue /\ last' = <<"UserCmd", <<c>>, "rejected">>
    /\ UNCHANGED <<started, paused, holding, phase, state, runId, nextId, pt, rt, out, hw, prev, nticks>>

(* the running method (or the user, through injected code) drives the output; only possible while the run progresses *)
SetOutput(v) ==
    /\ started /\ ~paused /\ ~holding /\ phase = "none" /\ v # out
    /\ out' = v /\ last' = <<"SetOutput", <<v>>, "ok">>
    /\ UNCHANGED <<started, paused, holding, phase, state, runId, nextId, queue, pt, rt, hw, prev, ncmds, nticks>>

(* effect of one queued command on a state record *)
Exec(s, c) ==
    CASE c = "Start" /\ ~s.started ->
            [s EXCEPT !.started = TRUE, !.paused = FALSE, !.holding = FALSE, !.runId = s.nextId, !.nextId = s.nextId + 1,
                      !.pt = 0, !.rt = 0, !.prev = "none"]
      [] c = "Pause" /\ s.started /\ ~s.paused ->
            [s EXCEPT !.paused = TRUE, !.prev = s.out, !.out = Safe]
      [] c = "Unpause" /\ s.started /\ s.paused ->
            [s EXCEPT !.paused = FALSE, !.out = IF s.prev = "none" THEN s.out ELSE s.prev, !.prev = "none"]
      [] c = "Hold" /\ s.started -> [s EXCEPT !.holding = TRUE]
      [] c = "Unhold" /\ s.started -> [s EXCEPT !.holding = FALSE]
      [] c = "Stop" /\ s.started /\ s.phase = "none" -> [s EXCEPT !.phase = "stop1"]
      [] c = "Restart" /\ s.started /\ s.phase = "none" -> [s EXCEPT !.phase = "restart1"]
      [] OTHER -> s                                     \* no longer applicable when it gets its turn: no effect

RECURSIVE ExecAll(_, _)
ExecAll(s, q) == IF q = <<>> THEN s ELSE ExecAll(Exec(s, Head(q)), Tail(q))

Tick ==
    /\ nticks < MaxTicks /\ nticks' = nticks + 1
    /\ LET s0 == [started |-> started, paused |-> paused, holding |-> holding, phase |-> phase, runId |-> runId,
                  nextId |-> nextId, pt |-> pt, rt |-> rt, out |-> out, prev |-> prev]
           \* clocks: advance over a tick whose starting state was Running (resp. a run was active)
           s1 == [s0 EXCEPT !.pt = IF started /\ state = "Running" THEN pt + 1 ELSE pt,
                            !.rt = IF started /\ state \notin {"Stopped", "Restarting"} THEN rt + 1 ELSE rt]
           \* a Stop / Restart in progress advances one phase; otherwise the queued commands run
           s2 == CASE phase = "stop1" ->
                        [s1 EXCEPT !.started = FALSE, !.paused = FALSE, !.holding = FALSE, !.phase = "none", !.runId = 0,
                                   !.out = Safe, !.prev = "none"]
                   [] phase = "restart1" ->
                        [s1 EXCEPT !.started = FALSE, !.paused = FALSE, !.holding = FALSE, !.phase = "restart2", !.runId = 0,
                                   !.out = Safe, !.prev = "none"]
                   [] phase = "restart2" ->
                        [s1 EXCEPT !.started = TRUE, !.phase = "none", !.runId = s1.nextId, !.nextId = s1.nextId + 1,
                                   !.pt = 0, !.rt = 0]
                   [] OTHER -> ExecAll(s1, queue)
       IN /\ started' = s2.started /\ paused' = s2.paused /\ holding' = s2.holding /\ phase' = s2.phase
          /\ runId' = s2.runId /\ nextId' = s2.nextId /\ pt' = s2.pt /\ rt' = s2.rt /\ out' = s2.out /\ prev' = s2.prev
          /\ queue' = IF phase = "none" THEN <<>> ELSE queue
          /\ state' = IF s2.phase = "restart1" THEN "Restarting"
                      ELSE IF ~s2.started THEN "Stopped"
                      ELSE IF s2.paused THEN "Paused" ELSE IF s2.holding THEN "Holding" ELSE "Running"
          /\ hw' = s2.out                         \* the process image is written at the end of every tick
    /\ last' = <<"Tick", <<>>, "ok">>
    /\ UNCHANGED ncmds

Init == /\ started = FALSE /\ paused = FALSE /\ holding = FALSE /\ phase = "none" /\ state = "Stopped"
        /\ runId = 0 /\ nextId = 1 /\ queue = <<>> /\ pt = 0 /\ rt = 0
        /\ out = Safe /\ hw = Safe                \* engine start writes the safe values to the device
        /\ prev = "none" /\ ncmds = 0 /\ nticks = 0 /\ last = <<"Init", <<>>, "ok">>

Next == (\E c \in Cmds : UserCmd(c)) \/ (\E v \in Vals \ {Safe} : SetOutput(v)) \/ Tick
Spec == Init /\ [][Next]_vars

-----------------------------------------------------------------------------
(* C06 *)
SysStateAgrees ==
    /\ state = "Stopped" <=> ~started
    /\ started => state \in {Display, "Restarting"}
    /\ state = "Restarting" => phase = "restart1"
RunIdFresh == /\ (runId = 0) <=> ~started
              /\ runId < nextId
GatingExact == last[1] = "UserCmd" => (last[3] = "accepted" \/ last[3] = "rejected")
(* C07 *)
ClocksMonotoneWithinRun == [][runId' = runId /\ runId # 0 => pt' >= pt /\ rt' >= rt]_vars
PtOnlyRunning == [][pt' > pt => state = "Running"]_vars
RtOnlyActive == [][rt' > rt => started]_vars
ZeroAtStart == [][runId' # runId /\ runId' # 0 => pt' = 0 /\ rt' = 0]_vars
(* C08: the device holds the safe value whenever no run is progressing (observed at tick boundaries) *)
SafeWhenIdle == ~started => hw = Safe
SafeWhilePaused == paused /\ last[1] = "Tick" => hw = Safe
(* C09 *)
UnpauseRestoresLastPause ==
    [][paused /\ ~paused' /\ started' /\ prev # "none" => out' = prev]_vars
PrevNeverCrossesRuns == ~started => prev = "none"
=============================================================================
