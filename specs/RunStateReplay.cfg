CONSTANTS
  MaxCmds = 3
  MaxTicks = 5
SPECIFICATION Spec
INVARIANT SysStateAgrees
INVARIANT RunIdFresh
INVARIANT SafeWhenIdle
INVARIANT SafeWhilePaused
INVARIANT PrevNeverCrossesRuns
PROPERTY ClocksMonotoneWithinRun
PROPERTY PtOnlyRunning
PROPERTY RtOnlyActive
PROPERTY ZeroAtStart
PROPERTY UnpauseRestoresLastPause
CHECK_DEADLOCK FALSE
