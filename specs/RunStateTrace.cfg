CONSTANT SafeToken = "0.0"
SPECIFICATION TSpec
CHECK_DEADLOCK FALSE
