---------------------------- MODULE RunStateTrace ----------------------------
(***************************************************************************)
(* Monitor for recorded engine runs (C06 C07 C08 C09 C13): named clauses    *)
(* over the state observed at every tick boundary and over every user       *)
(* control request.  Events (projection of the engine trace):               *)
(*  [e |-> "req", name, state, paused, holding, res]   user control request *)
(*  [e |-> "tickEnd", t, exc, state, started, paused, holding, runId,        *)
(*        status, err, ctl, ptu, rtu, btu, stu, block, out1, hw1, w1,        *)
(*        failedNodes, mfailed, scopeChange, writerExec]                     *)
(* Clock values are integer microseconds; out1 / hw1 / w1 are value tokens. *)
(***************************************************************************)
EXTENDS Integers, Sequences, FiniteSets, TLC, TraceLib

CONSTANT SafeToken

VARIABLES p,            \* the previous tickEnd record ("none" before the first tick is modelled by p.t = -1)
          maxRun,       \* highest run id index seen
          everStarted,  \* some run has started
          prePause,     \* output value at the last tick boundary of this run at which the run was not paused
          prePauseRun, pauseDirty,
          writerInPause,  \* a command that writes the output has executed since the current pause began
          restartWanted,
          unpauseAsked, \* an Unpause request was accepted since the last tick ended
          stopAt,       \* tick at which a user Stop was accepted (0 = none pending; ticks are counted from 1 here)
          seen,         \* witnesses: antecedents of clauses that held at least once (vacuity guard)
          tid, l, viols, done
tvars == <<p, maxRun, everStarted, prePause, prePauseRun, pauseDirty, writerInPause, restartWanted, stopAt, unpauseAsked, seen, tid, l, viols, done>>
T == Traces[tid].ev

Display(e) == IF ~e.started THEN "Stopped" ELSE IF e.paused THEN "Paused" ELSE IF e.holding THEN "Holding" ELSE "Running"

Valid(c, state, paused, holding) ==
    CASE c = "Start" -> state = "Stopped"
      [] c \in {"Stop", "Restart"} -> state \notin {"Stopped", "Restarting"}
      [] c = "Pause" -> state \notin {"Stopped", "Restarting"} /\ ~paused
      [] c = "Unpause" -> state \notin {"Stopped", "Restarting"} /\ paused
      [] c = "Hold" -> state \notin {"Stopped", "Restarting"} /\ ~holding
      [] c = "Unhold" -> state \notin {"Stopped", "Restarting"} /\ holding
      [] OTHER -> TRUE

ReqClauses(e) ==
    << <<"C06.gating@" \o e.name, (e.res = "ok") = Valid(e.name, e.state, e.paused, e.holding)>> >>

SameRun(e) == p.t >= 0 /\ e.runId = p.runId /\ e.runId # 0
NewRun(e) == e.runId # 0 /\ (p.t < 0 \/ e.runId # p.runId)
SetOfSeq(q) == {q[i] : i \in DOMAIN q}

TickClauses(e) ==
    LET sameBlock == SameRun(e) /\ e.block = p.block /\ ~e.scopeChange IN
    << <<"C13.tick-raised", e.exc = "none">>,
       \* C06
       \* (site: Stop / Restart has just ended the run and a Pause or Hold command that was still in the executing list ran after it
       \*  in the same tick - neither command looks at whether a run is active: recorded finding)
       <<"C06.stopped-iff-no-run" \o (IF ~e.started /\ (e.paused \/ e.holding) /\ p.t >= 0 /\ p.started
                                       THEN "@pause-or-hold-executed-after-the-run-ended" ELSE ""),
         (e.state = "Stopped") = ~e.started>>,
       <<"C06.state-matches-flags", e.started => e.state \in {Display(e), "Restarting"}>>,
       <<"C06.restarting-only-during-restart", e.state = "Restarting" => restartWanted>>,
       <<"C06.control-state-agrees",
            e.ctl.running = e.started /\ e.ctl.paused = e.paused /\ e.ctl.holding = e.holding>>,
       <<"C06.run-id-present", e.started => e.runId > 0>>,
       <<"C06.run-id-cleared", ~e.started => e.runId = 0>>,
       <<"C06.run-id-fresh", NewRun(e) => e.runId = maxRun + 1>>,
       \* C07
       <<"C07.zero-at-start", NewRun(e) => e.ptu = 0 /\ e.rtu = 0>>,
       <<"C07.monotone", SameRun(e) => e.ptu >= p.ptu /\ e.rtu >= p.rtu>>,
       <<"C07.pt-only-running@" \o e.pstate, SameRun(e) /\ e.ptu > p.ptu => e.pstate = "Running">>,
       <<"C07.rt-only-active", SameRun(e) /\ e.rtu > p.rtu => e.pstate # "Stopped">>,
       <<"C07.bt-only-running@" \o e.pstate, sameBlock /\ e.btu > p.btu => e.pstate = "Running">>,
       <<"C07.st-only-running@" \o e.pstate, sameBlock /\ e.stu > p.stu => e.pstate = "Running">>,
       \* a clock that only ever stands still would satisfy the two clauses above: while the run is Running and progressing and no
       \* scope starts or ends, Scope Time (the clock of the innermost active scope) does not sit at zero
       <<"C07.st-not-stuck-at-zero" \o (IF e.edited THEN "@after-live-edit" ELSE ""),
            sameBlock /\ e.pstate = "Running" /\ e.state = "Running" /\ e.started /\ p.started /\ ~e.stopping /\ p.ptu > 0 /\ e.ptu > p.ptu
                => ~(p.stu = 0 /\ e.stu = 0)>>,
       \* C08
       <<"C08.safe-before-first-run", ~everStarted /\ ~e.started => e.hw1 = SafeToken>>,
       <<"C08.safe-after-stop", everStarted /\ ~e.started => e.hw1 = SafeToken>>,
       <<"C08.safe-while-paused@" \o (IF e.writerExec \/ writerInPause THEN "command-keeps-writing"
                                      ELSE IF e.err THEN "error-pause" ELSE "pause"),
            p.t >= 0 /\ p.paused /\ e.paused /\ e.started => e.hw1 = SafeToken>>,
       \* a Stop or Restart that ends a paused run takes the outputs from safe to safe: cancelling the pending Pause must not
       \* put the values from before the pause back on the hardware for the tick in which the run is being ended
       <<"C08.safe-when-stop-ends-pause",
            p.t >= 0 /\ p.paused /\ p.started /\ e.stopping /\ SameRun(e) /\ ~(e.writerExec \/ writerInPause) /\ ~unpauseAsked
                => e.hw1 = SafeToken>>,
       <<"C08.no-unsafe-write-when-stopped",
            p.t >= 0 /\ ~p.started /\ ~e.started => \A i \in DOMAIN e.w1 : e.w1[i] = SafeToken>>,
       \* C09
       <<"C09.unpause-restores@" \o (IF p.t >= 0 /\ p.err THEN "after-error-pause" ELSE "unpause"),
            p.t >= 0 /\ p.paused /\ ~e.paused /\ e.started /\ SameRun(e) /\ ~e.writerExec /\ ~pauseDirty
                => (prePauseRun = e.runId /\ e.out1 = prePause)>>,
       \* C13
       <<"C13.error-pauses", e.failedNodes # <<>> => e.paused /\ e.status = "Error">>,
       \* the converse: the run is not put into the error state by the engine's own bookkeeping. With hardware and UOD callbacks
       \* that stay in their domains, an error state begins only in a tick in which an instruction (method, injected or user) failed
       \* (site: a Stop / Restart line of the method was being executed - tracking skips every mark_* for these two commands, so a
       \*  malformed one, e.g. "Stop: now", pauses the run with Error without its line being marked failed: recorded finding)
       <<"C13.error-state-has-a-failed-instruction" \o (IF e.stopLine THEN "@stop-or-restart-line" ELSE ""),
         p.t >= 0 /\ ~p.err /\ e.err => e.failedAny>>,
       <<"C13.failed-line-reported" \o (IF e.edited THEN "@after-live-edit" ELSE ""), e.failedNodes # <<>> /\ e.started => SetOfSeq(e.failedNodes) \subseteq SetOfSeq(e.mfailed)>>,
       <<"C13.stop-completes", stopAt # 0 /\ e.t + 1 >= stopAt + 3 => ~e.started>> >>

(* which antecedents hold at this event (evaluated in the state before the event) *)
Witness(e) ==
    IF e.e = "req" THEN {"request-" \o e.name \o "-" \o e.res}
    ELSE (IF NewRun(e) THEN {"new-run"} ELSE {}) \cup
         (IF NewRun(e) /\ maxRun > 0 THEN {"second-or-later-run"} ELSE {}) \cup
         (IF p.t >= 0 /\ p.paused /\ e.paused /\ e.started THEN {"paused-tick"} ELSE {}) \cup
         (IF p.t >= 0 /\ p.paused /\ e.paused /\ e.started /\ e.err THEN {"error-paused-tick"} ELSE {}) \cup
         (IF p.t >= 0 /\ p.paused /\ ~e.paused /\ e.started /\ SameRun(e) /\ ~e.writerExec /\ ~pauseDirty THEN {"pause-ended"} ELSE {}) \cup
         (IF p.t >= 0 /\ p.paused /\ p.started /\ e.stopping /\ SameRun(e) /\ ~(e.writerExec \/ writerInPause) /\ ~unpauseAsked
            THEN {"stop-ends-pause"} ELSE {}) \cup
         (IF e.failedNodes # <<>> THEN {"method-line-failed"} ELSE {}) \cup
         (IF p.t >= 0 /\ ~p.err /\ e.err THEN {"error-state-begins"} ELSE {}) \cup
         (IF everStarted /\ ~e.started THEN {"stopped-after-a-run"} ELSE {}) \cup
         (IF ~everStarted /\ ~e.started THEN {"before-first-run"} ELSE {}) \cup
         (IF e.state = "Restarting" THEN {"restarting-tick"} ELSE {}) \cup
         (IF stopAt # 0 THEN {"stop-pending"} ELSE {}) \cup
         (IF e.holding /\ e.started THEN {"holding-tick"} ELSE {}) \cup
         (IF e.edited THEN {"after-live-edit"} ELSE {}) \cup
         (IF SameRun(e) /\ e.ptu > p.ptu THEN {"process-time-advanced"} ELSE {}) \cup
         (IF SameRun(e) /\ e.block = p.block /\ ~e.scopeChange /\ e.btu > p.btu THEN {"block-time-advanced"} ELSE {})

NoPrev == [t |-> -1]
TInit == /\ p = NoPrev /\ maxRun = 0 /\ everStarted = FALSE /\ prePause = "" /\ prePauseRun = 0 /\ pauseDirty = FALSE
         /\ writerInPause = FALSE
         /\ restartWanted = FALSE /\ stopAt = 0 /\ unpauseAsked = FALSE
         /\ tid \in 1..Len(Traces) /\ l = 1 /\ viols = {} /\ done = FALSE /\ seen = {}

Step ==
    /\ l <= Len(T)
    /\ LET e == T[l] IN
       IF e.e = "req" THEN
          /\ viols' = AddViols(viols, Failing(ReqClauses(e)), l)
          /\ restartWanted' = (restartWanted \/ (e.name = "Restart" /\ e.res = "ok"))
          /\ stopAt' = IF e.name = "Stop" /\ e.res = "ok" /\ stopAt = 0 THEN e.t + 2 ELSE stopAt
          /\ unpauseAsked' = (unpauseAsked \/ (e.name = "Unpause" /\ e.res = "ok"))
          /\ UNCHANGED <<p, maxRun, everStarted, prePause, prePauseRun, pauseDirty, writerInPause>>
       ELSE
          /\ viols' = AddViols(viols, Failing(TickClauses(e)), l)
          /\ p' = e
          /\ maxRun' = IF e.runId > maxRun THEN e.runId ELSE maxRun
          /\ everStarted' = (everStarted \/ e.started)
          /\ prePause' = IF e.started /\ ~e.paused THEN e.out1 ELSE prePause
          /\ prePauseRun' = IF e.started /\ ~e.paused THEN e.runId ELSE prePauseRun
          \* a command that writes the output executed in the tick in which the pause took effect: the captured value is unknown
          /\ pauseDirty' = IF e.paused /\ (p.t < 0 \/ ~p.paused) THEN e.writerExec ELSE IF ~e.paused THEN FALSE ELSE pauseDirty
          /\ writerInPause' = IF e.paused THEN (writerInPause \/ e.writerExec) ELSE FALSE
          /\ restartWanted' = IF e.methodRestart THEN TRUE
                              ELSE IF restartWanted /\ e.state = "Running" /\ p.t >= 0 /\ p.state \in {"Stopped", "Restarting"} THEN FALSE
                              ELSE restartWanted
          /\ stopAt' = IF ~e.started THEN 0 ELSE stopAt
          /\ unpauseAsked' = FALSE
    /\ l' = l + 1 /\ seen' = seen \cup Witness(T[l]) /\ UNCHANGED <<tid, done>>

Finish == /\ l = Len(T) + 1 /\ ~done /\ done' = TRUE /\ ReportW(Traces[tid].id, l - 1, viols, seen)
          /\ UNCHANGED <<p, maxRun, everStarted, prePause, prePauseRun, pauseDirty, writerInPause, restartWanted, stopAt, unpauseAsked, seen, tid, l, viols>>
TSpec == TInit /\ [][Step \/ Finish]_tvars
=============================================================================
