-------------------------------- MODULE Runner --------------------------------
(***************************************************************************)
(* EngineRunner: masking connection loss towards the aggregator (C27).      *)
(*                                                                          *)
(* Messages are produced by the engine (run data, and one stop notification *)
(* per run, produced after that run's data).  While the runner is in a      *)
(* posting state a message is sent at once; otherwise it is buffered.  The  *)
(* timer drives the recovery states Failed -> Disconnected -> Reconnecting  *)
(* -> CatchingUp -> Reconnected; in CatchingUp the buffer is sent in order, *)
(* batch by batch, until a batch finds it empty.  A send fails when the     *)
(* network is down: the runner goes to Failed and the message (and the rest *)
(* of its batch) is buffered again, keeping its sequence number.            *)
(* `HoldLiveDuringCatchUp` selects the intended design (messages produced   *)
(* while catching up queue behind the buffer) or the recorded behaviour of  *)
(* the code (they are sent at once).                                        *)
(***************************************************************************)
EXTENDS Naturals, Sequences, FiniteSets, TLC

CONSTANTS MaxMsgs, MaxFaults, HoldLiveDuringCatchUp

Posting == {"Connected", "Reconnected", "CatchingUp"}

VARIABLES state, net, buffer, produced, delivered, attempts, nfaults, last
vars == <<state, net, buffer, produced, delivered, attempts, nfaults, last>>

(* message n is [id |-> n, kind]; every third message closes a run *)
Kind(n) == IF n % 3 = 0 THEN "stop" ELSE "data"
Msg(n) == [id |-> n, kind |-> Kind(n)]

Init == /\ state = "Connected" /\ net = "up" /\ buffer = <<>> /\ produced = 0 /\ delivered = <<>> /\ attempts = {}
        /\ nfaults = 0 /\ last = <<"Init">>

Fail == /\ nfaults < MaxFaults /\ net = "up" /\ net' = "down" /\ nfaults' = nfaults + 1 /\ last' = <<"NetDown">>
        /\ UNCHANGED <<state, buffer, produced, delivered, attempts>>
Heal == /\ net = "down" /\ net' = "up" /\ last' = <<"NetUp">> /\ UNCHANGED <<state, buffer, produced, delivered, attempts, nfaults>>

(* one send attempt: delivered, or the runner fails and buffers *)
Produce ==
    /\ produced < MaxMsgs
    /\ LET m == Msg(produced + 1)
           direct == state \in Posting /\ ~(HoldLiveDuringCatchUp /\ state = "CatchingUp" /\ buffer # <<>>) IN
       /\ produced' = produced + 1
       /\ IF direct
          THEN IF net = "up"
               THEN delivered' = Append(delivered, m.id) /\ UNCHANGED <<state, buffer, attempts>>
               ELSE state' = "Failed" /\ buffer' = Append(buffer, m.id) /\ attempts' = attempts \cup {m.id} /\ UNCHANGED delivered
          ELSE buffer' = Append(buffer, m.id) /\ UNCHANGED <<state, delivered, attempts>>
    /\ last' = <<"Produce", produced + 1>> /\ UNCHANGED <<net, nfaults>>

Timer ==
    /\ CASE state = "Failed" -> state' = "Disconnected" /\ UNCHANGED <<buffer, delivered, attempts>>
         [] state = "Disconnected" ->
              /\ state' = IF net = "up" THEN "Reconnecting" ELSE "Failed"
              /\ UNCHANGED <<buffer, delivered, attempts>>
         [] state = "Reconnecting" -> state' = "CatchingUp" /\ UNCHANGED <<buffer, delivered, attempts>>
         [] state = "CatchingUp" ->
              IF buffer = <<>> THEN state' = "Reconnected" /\ UNCHANGED <<buffer, delivered, attempts>>
              ELSE IF net = "up"
                   THEN /\ delivered' = delivered \o buffer /\ buffer' = <<>> /\ UNCHANGED <<state, attempts>>
                   ELSE /\ state' = "Failed" /\ attempts' = attempts \cup {buffer[i] : i \in DOMAIN buffer}
                        /\ UNCHANGED <<buffer, delivered>>
         [] OTHER -> UNCHANGED <<state, buffer, delivered, attempts>>
    /\ last' = <<"Timer">> /\ UNCHANGED <<net, produced, nfaults>>

Next == Produce \/ Timer \/ Fail \/ Heal
Spec == Init /\ [][Next]_vars

Range(q) == {q[i] : i \in DOMAIN q}
NoLoss == \A n \in 1..produced : n \in Range(delivered) \/ n \in Range(buffer)
NoStranded == state \in {"Connected", "Reconnected"} => buffer = <<>>
AtMostOnce == \A i, j \in DOMAIN delivered : i # j => delivered[i] # delivered[j]
(* run data produced before a stop notification reaches the aggregator before it *)
DataBeforeStop == \A i \in DOMAIN delivered : Kind(delivered[i]) = "stop" =>
                     \A n \in 1..delivered[i] : n \in Range(delivered) => \E j \in 1..i : delivered[j] = n
StopImpliesData == \A i \in DOMAIN delivered : Kind(delivered[i]) = "stop" =>
                     \A n \in 1..(delivered[i] - 1) : \E j \in 1..i : delivered[j] = n
=============================================================================
