CONSTANTS MaxMsgs = 6  MaxFaults = 2  HoldLiveDuringCatchUp = FALSE
SPECIFICATION Spec
INVARIANT NoLoss
INVARIANT NoStranded
INVARIANT AtMostOnce
INVARIANT StopImpliesData
CHECK_DEADLOCK FALSE
