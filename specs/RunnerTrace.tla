----------------------------- MODULE RunnerTrace -----------------------------
(***************************************************************************)
(* Monitor for recorded executions of the real EngineRunner on a scripted   *)
(* network (C27).  Events:                                                   *)
(*  [e |-> "made", n, kind, run]      the runner took a message from the      *)
(*                                    message builder / an engine event       *)
(*  [e |-> "wire", n, seq]            the message went onto the connection    *)
(*                                    (arrival order at the aggregator)       *)
(*  [e |-> "attempt", n, seq, ok]     the send attempt finished: ok = the      *)
(*                                    response came back                       *)
(*  [e |-> "state", old, new, buf]    runner state change, buffer size        *)
(*  [e |-> "end", state, buf, netUpFor]   after the final quiet period        *)
(* The monitor state is Runner.tla's: what was produced, what was delivered, *)
(* the sequence numbers.                                                     *)
(***************************************************************************)
EXTENDS Integers, Sequences, FiniteSets, TLC, TraceLib

VARIABLES made,        \* <<n, kind, run>> in production order (a sequence)
          arrived,     \* ids that reached the aggregator at least once
          ok,          \* ids whose delivery was acknowledged
          failed,      \* ids with a failed attempt
          seqOf,       \* <<n, seq>>
          tid, l, viols, done
mvars == <<made, arrived, ok, failed, seqOf>>
tvars == <<mvars, tid, l, viols, done>>
T == Traces[tid].ev
RunData == {"data", "runlog"}

IndexOf(n) == CHOOSE i \in DOMAIN made : made[i][1] = n
KindOf(n) == made[IndexOf(n)][2]
RunOf(n) == made[IndexOf(n)][3]
Known(n) == \E i \in DOMAIN made : made[i][1] = n

AttemptClauses(e) ==
    << <<"C27.resent-only-after-a-failed-attempt@" \o (IF Known(e.n) THEN KindOf(e.n) ELSE "?"), e.n \in ok => FALSE>>,
       <<"C27.sequence-number-kept-across-resends", \A p \in seqOf : p[1] = e.n => p[2] = e.seq>>,
       <<"C27.sequence-numbers-distinct", \A p \in seqOf : p[2] = e.seq => p[1] = e.n>> >>

WireClauses(e) ==
    LET stopOfRun == Known(e.n) /\ KindOf(e.n) = "run_stopped" IN
    << <<"C27.resent-only-after-a-failed-attempt@" \o (IF Known(e.n) THEN KindOf(e.n) ELSE "?"), e.n \notin ok>>,
       <<"C27.run-data-reaches-aggregator-before-the-stop",
         stopOfRun => \A i \in 1..(IndexOf(e.n) - 1) : (made[i][2] \in RunData /\ made[i][3] = RunOf(e.n)) => made[i][1] \in arrived>> >>

StateClauses(e) ==
    << <<"C27.nothing-stranded-when-caught-up@" \o e.new, e.new \in {"Reconnected", "Connected"} => e.buf = 0>> >>

EndClauses(e) ==
    << <<"C27.every-message-delivered", \A i \in DOMAIN made : made[i][1] \in arrived>>,
       <<"C27.buffer-empty-at-the-end", e.buf = 0>>,
       <<"C27.recovers-to-steady-state", e.state \in {"Connected", "Reconnected"}>> >>

TInit == /\ made = <<>> /\ arrived = {} /\ ok = {} /\ failed = {} /\ seqOf = {}
         /\ tid \in 1..Len(Traces) /\ l = 1 /\ viols = {} /\ done = FALSE

Step ==
    /\ l <= Len(T)
    /\ LET e == T[l] IN
       CASE e.e = "made" -> /\ made' = Append(made, <<e.n, e.kind, e.run>>) /\ UNCHANGED <<arrived, ok, failed, seqOf, viols>>
         [] e.e = "wire" ->
              /\ viols' = AddViols(viols, Failing(WireClauses(e)), l)
              /\ arrived' = arrived \cup {e.n} /\ UNCHANGED <<made, ok, failed, seqOf>>
         [] e.e = "attempt" ->
              /\ viols' = AddViols(viols, Failing(AttemptClauses(e)), l)
              /\ ok' = IF e.ok THEN ok \cup {e.n} ELSE ok
              /\ failed' = IF e.ok THEN failed ELSE failed \cup {e.n}
              /\ seqOf' = seqOf \cup {<<e.n, e.seq>>}
              /\ UNCHANGED <<made, arrived>>
         [] e.e = "state" -> /\ viols' = AddViols(viols, Failing(StateClauses(e)), l) /\ UNCHANGED mvars
         [] e.e = "end" -> /\ viols' = AddViols(viols, Failing(EndClauses(e)), l) /\ UNCHANGED mvars
         [] OTHER -> UNCHANGED <<mvars, viols>>
    /\ l' = l + 1 /\ UNCHANGED <<tid, done>>

Finish == /\ l = Len(T) + 1 /\ ~done /\ done' = TRUE /\ Report(Traces[tid].id, l - 1, viols) /\ UNCHANGED <<mvars, tid, l, viols>>
TSpec == TInit /\ [][Step \/ Finish]_tvars
=============================================================================
