CONSTANTS Tags = {"a", "b"}  Vals = {"x", "y", "z"}  MaxTime = 3
SPECIFICATION Spec
INVARIANT ReceiverCurrent
INVARIANT CleanMeansKnown
INVARIANT StampInRange
PROPERTY StampMonotone
PROPERTY StampIsChangeTick
