------------------------------ MODULE TagReport ------------------------------
(***************************************************************************)
(* Tag change reporting (C16, C36) -- the design.                           *)
(*                                                                          *)
(* The engine keeps, per tag, its value and the engine time of the tick in  *)
(* which that value was set.  Every change marks the tag dirty; a report    *)
(* carries every dirty tag once, with its latest value and that time, and   *)
(* clears the marks; a snapshot report carries every tag.  `known` is what  *)
(* a receiver that applies the reports believes.                            *)
(***************************************************************************)
EXTENDS Naturals, FiniteSets, TLC

CONSTANTS Tags, Vals, MaxTime

VARIABLES now,          \* engine time of the current tick (0 = engine start)
          val, stamp,   \* per tag: value, time of the tick in which it was set
          dirty,        \* tags changed since the last report
          known,        \* per tag: <<value, stamp>> a receiver holds after applying all reports
          last          \* history: <<action, tag, value>>
vars == <<now, val, stamp, dirty, known, last>>

V0 == CHOOSE v \in Vals : TRUE

Init == /\ now = 0 /\ val = [t \in Tags |-> V0] /\ stamp = [t \in Tags |-> 0] /\ dirty = {}
        /\ known = [t \in Tags |-> <<V0, 0>>] /\ last = <<"Init", "", "">>

Tick == /\ now < MaxTime /\ now' = now + 1 /\ last' = <<"Tick", "", "">> /\ UNCHANGED <<val, stamp, dirty, known>>

(* setting the value a tag already has changes nothing: neither the time nor the dirty mark *)
Set(t, v) == /\ val' = [val EXCEPT ![t] = v]
             /\ stamp' = IF v # val[t] THEN [stamp EXCEPT ![t] = now] ELSE stamp
             /\ dirty' = IF v # val[t] THEN dirty \cup {t} ELSE dirty
             /\ last' = <<"Set", t, v>> /\ UNCHANGED <<now, known>>

Report(snapshot) ==
    LET carried == IF snapshot THEN Tags ELSE dirty IN
    /\ known' = [t \in Tags |-> IF t \in carried THEN <<val[t], stamp[t]>> ELSE known[t]]
    /\ dirty' = {} /\ last' = <<IF snapshot THEN "Snapshot" ELSE "Report", "", "">>
    /\ UNCHANGED <<now, val, stamp>>

Next == Tick \/ (\E t \in Tags, v \in Vals : Set(t, v)) \/ Report(FALSE) \/ Report(TRUE)
Spec == Init /\ [][Next]_vars

(* C36: after a report the receiver knows the latest value of every tag *)
ReceiverCurrent == last[1] \in {"Report", "Snapshot"} => \A t \in Tags : known[t][1] = val[t]
CleanMeansKnown == \A t \in Tags : t \notin dirty => known[t] = <<val[t], stamp[t]>>
(* C16 *)
StampInRange == \A t \in Tags : stamp[t] <= now
StampMonotone == [][\A t \in Tags : stamp'[t] >= stamp[t] /\ known'[t][2] >= known[t][2]]_vars
StampIsChangeTick == [][\A t \in Tags : val'[t] # val[t] => stamp'[t] = now]_vars
=============================================================================
