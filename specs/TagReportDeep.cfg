CONSTANTS Tags = {"a", "b", "c"}  Vals = {"x", "y", "z"}  MaxTime = 4
SPECIFICATION Spec
INVARIANT ReceiverCurrent
INVARIANT CleanMeansKnown
INVARIANT StampInRange
PROPERTY StampMonotone
PROPERTY StampIsChangeTick
