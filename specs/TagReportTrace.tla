--------------------------- MODULE TagReportTrace ---------------------------
(***************************************************************************)
(* Monitor for the tag report stream of recorded engine runs (C16, C36).    *)
(* Events:                                                                  *)
(*  [e |-> "tags", t, ms, ch |-> <<[name, val]>>]   the tags whose value, as *)
(*        any reader sees it (Tag.get_value), differs from the previous tick *)
(*        end (all tags at the first one); ms = engine time of that tick     *)
(*  [e |-> "report", snapshot, ms, n, tags |-> <<[name, val, tt]>>]          *)
(*        one report built by the real EngineMessageBuilder; tt = reported   *)
(*        time in ms since engine start, n = number of tags the engine has   *)
(* The monitor state is TagReport's: the current value and the time of the   *)
(* last observed change per tag, and what a receiver of the reports knows.  *)
(***************************************************************************)
EXTENDS Integers, Sequences, FiniteSets, TLC, TraceLib

VARIABLES cur,        \* <<name, val>>: current values
          changeAt,   \* <<name, ms>>: tick time of the last observed change
          atReport,   \* <<name, val>>: the values when the last report was taken
          lastTt,     \* <<name, tt>>: time carried by the last report of the tag
          nowMs, tid, l, viols, done
mvars == <<cur, changeAt, atReport, lastTt, nowMs>>
tvars == <<mvars, tid, l, viols, done>>
T == Traces[tid].ev
SetOfSeq(q) == {q[i] : i \in DOMAIN q}
Lookup(set, n, d) == IF \E x \in set : x[1] = n THEN (CHOOSE x \in set : x[1] = n)[2] ELSE d
Put(set, n, v) == {x \in set : x[1] # n} \cup {<<n, v>>}
Names(set) == {x[1] : x \in set}

RECURSIVE PutAll(_, _, _)
PutAll(set, ch, i) == IF i > Len(ch) THEN set ELSE PutAll(Put(set, ch[i].name, ch[i].val), ch, i + 1)
RECURSIVE StampAll(_, _, _, _)
StampAll(set, ch, i, ms) ==      \* a value that (dis)appears because simulation is switched keeps the time it was set at
    IF i > Len(ch) THEN set ELSE StampAll(IF ch[i].simflip THEN set ELSE Put(set, ch[i].name, ms), ch, i + 1, ms)

ReportClauses(e) ==
    LET names == {e.tags[i].name : i \in DOMAIN e.tags}
        changed == {n \in Names(cur) : Lookup(cur, n, "?") # Lookup(atReport, n, "?")}
        PerTag(i) ==
          LET r == e.tags[i] IN
          << <<"C36.latest-value@" \o r.name, r.val = Lookup(cur, r.name, r.val)>>,
             <<"C16.not-before-engine-start@" \o r.name, r.tt >= 0>>,
             <<"C16.not-after-current-tick@" \o r.name, r.tt <= e.ms>>,
             <<"C16.per-tag-monotone@" \o r.name, r.tt >= Lookup(lastTt, r.name, r.tt)>>,
             <<"C16.time-of-the-change-tick@" \o r.name, r.tt >= Lookup(changeAt, r.name, 0)>> >>
        RECURSIVE All(_)
        All(i) == IF i > Len(e.tags) THEN <<>> ELSE PerTag(i) \o All(i + 1)
        Missing == changed \ names
    IN
    << <<"C36.no-tag-twice", Cardinality(names) = Len(e.tags)>>,
       <<"C36.snapshot-has-every-tag", e.snapshot => Cardinality(names) = e.n>>,
       <<"C36.changed-tag-reported@" \o (IF Missing = {} THEN "" ELSE CHOOSE n \in Missing : TRUE), Missing = {}>> >>
    \o All(1)

TInit == /\ cur = {} /\ changeAt = {} /\ atReport = {} /\ lastTt = {} /\ nowMs = 0
         /\ tid \in 1..Len(Traces) /\ l = 1 /\ viols = {} /\ done = FALSE

RECURSIVE TtAll(_, _, _)
TtAll(set, tags, i) == IF i > Len(tags) THEN set ELSE TtAll(Put(set, tags[i].name, tags[i].tt), tags, i + 1)

Step ==
    /\ l <= Len(T)
    /\ LET e == T[l] IN
       CASE e.e = "tags" ->
              /\ cur' = PutAll(cur, e.ch, 1)
              /\ changeAt' = IF cur = {} THEN changeAt ELSE StampAll(changeAt, e.ch, 1, e.ms)
              /\ atReport' = IF cur = {} THEN PutAll(cur, e.ch, 1) ELSE atReport
              /\ nowMs' = e.ms /\ UNCHANGED <<lastTt, viols>>
         [] e.e = "report" ->
              /\ viols' = AddViols(viols, Failing(ReportClauses(e)), l)
              /\ atReport' = cur /\ lastTt' = TtAll(lastTt, e.tags, 1)
              /\ UNCHANGED <<cur, changeAt, nowMs>>
         [] OTHER -> UNCHANGED <<mvars, viols>>
    /\ l' = l + 1 /\ UNCHANGED <<tid, done>>

Finish == /\ l = Len(T) + 1 /\ ~done /\ done' = TRUE /\ Report(Traces[tid].id, l - 1, viols) /\ UNCHANGED <<mvars, tid, l, viols>>
TSpec == TInit /\ [][Step \/ Finish]_tvars
=============================================================================
