CONSTANTS Guarded = TRUE  Ticks = 2
SPECIFICATION Spec
INVARIANT Atomic
INVARIANT NotLost
CHECK_DEADLOCK FALSE
