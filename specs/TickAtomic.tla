------------------------------ MODULE TickAtomic ------------------------------
(***************************************************************************)
(* Requests from the aggregator versus the ticking thread (C40).            *)
(*                                                                          *)
(* The tick thread passes the scheduling points of Engine.tick in order;    *)
(* between "locked" and "unlocked" it holds the engine lock and reads and   *)
(* writes the interpreter state in several steps.  A request thread applies *)
(* one request (method edit, injection, control command, cancel, force).   *)
(* With `Guarded` the request takes the engine lock; without it the request *)
(* just runs.  `log` records the order of the steps that touch the shared   *)
(* state; the run is atomic iff the request's step does not fall between   *)
(* the first and the last step of a tick.                                   *)
(***************************************************************************)
EXTENDS Naturals, Sequences, TLC

CONSTANTS Guarded,      \* the request takes the engine lock
          Ticks         \* number of ticks

Points == <<"tick:before-read", "tick:before-lock", "tick:locked", "interpreter:subtick", "tick:after-interpreter",
            "tick:before-commands", "tick:after-commands", "tick:unlocked">>
Inside == {"tick:locked", "interpreter:subtick", "tick:after-interpreter", "tick:before-commands", "tick:after-commands"}

VARIABLES pc,        \* index into Points of the point the tick thread stands at (0 = between ticks)
          tickNo,
          lock,      \* "free" | "tick" | "req"
          req,       \* "idle" | "pending" | "waiting" (for the lock) | "done"
          firedAt,   \* the point at which the request was issued ("" not yet)
          log        \* sequence of <<"T", tick, point>> and <<"R">>
vars == <<pc, tickNo, lock, req, firedAt, log>>

Init == pc = 0 /\ tickNo = 0 /\ lock = "free" /\ req = "idle" /\ firedAt = "" /\ log = <<>>

(* the tick thread advances to its next point; taking / releasing the lock at the right points *)
TickStep ==
    /\ tickNo < Ticks \/ pc # 0
    /\ LET next == IF pc = Len(Points) THEN 0 ELSE pc + 1
           name == IF next = 0 THEN "" ELSE Points[next] IN
       /\ (name = "tick:locked") => lock = "free"
       /\ pc' = next
       /\ tickNo' = IF pc = 0 THEN tickNo + 1 ELSE tickNo
       /\ lock' = IF name = "tick:locked" THEN "tick" ELSE IF name = "tick:unlocked" THEN "free" ELSE lock
       /\ log' = IF name \in Inside THEN Append(log, <<"T", IF pc = 0 THEN tickNo + 1 ELSE tickNo, name>>) ELSE log
    /\ UNCHANGED <<req, firedAt>>

(* the request arrives while the tick thread stands at some point *)
Fire == /\ req = "idle" /\ req' = "pending" /\ firedAt' = (IF pc = 0 THEN "between-ticks" ELSE Points[pc])
        /\ UNCHANGED <<pc, tickNo, lock, log>>

Apply == /\ req \in {"pending", "waiting"}
         /\ IF Guarded /\ lock # "free"
            THEN req' = "waiting" /\ UNCHANGED <<log, lock>>
            ELSE req' = "done" /\ log' = Append(log, <<"R">>) /\ UNCHANGED lock
         /\ UNCHANGED <<pc, tickNo, firedAt>>

Next == TickStep \/ Fire \/ Apply
Spec == Init /\ [][Next]_vars

(* C40: the request's step never falls inside a tick's critical section *)
Atomic == \A i \in DOMAIN log : log[i] = <<"R">> =>
             ~(\E a, b \in DOMAIN log : a < i /\ i < b /\ log[a][1] = "T" /\ log[b][1] = "T" /\ log[a][2] = log[b][2])
(* no request is lost: when everything has run, it was applied *)
NotLost == (tickNo = Ticks /\ pc = 0 /\ req # "idle") => (req = "done" \/ ENABLED Apply)
=============================================================================
