CONSTANTS Guarded = FALSE  Ticks = 2
SPECIFICATION Spec
INVARIANT Atomic
CHECK_DEADLOCK FALSE
