--------------------------- MODULE TickAtomicTrace ---------------------------
(***************************************************************************)
(* Judges recorded two-thread experiments on the real Engine (C40): a       *)
(* request issued from a second thread while the tick thread stands at a    *)
(* scheduling point of TickAtomic.tla.                                       *)
(*  [e |-> "exp", kind, point, ranInside, outcome, tickExc, reqExc]          *)
(*   ranInside : the request completed while the tick thread was standing   *)
(*               at the point (it did not have to wait for the tick)         *)
(*   outcome   : the final state equals that of the sequential execution     *)
(*               "request-then-tick", "tick-then-request", or "neither"      *)
(***************************************************************************)
EXTENDS Integers, Sequences, FiniteSets, TLC, TraceLib

Inside == {"tick:locked", "interpreter:subtick", "tick:after-interpreter", "tick:before-commands", "tick:after-commands"}

VARIABLES tid, l, viols, done
tvars == <<tid, l, viols, done>>
T == Traces[tid].ev

Clauses(e) ==
    << <<"C40.request-waits-for-the-tick@" \o e.kind, e.point \in Inside => ~e.ranInside>>,
       <<"C40.as-if-between-ticks@" \o e.kind, e.outcome \in {"request-then-tick", "tick-then-request"}>>,
       <<"C40.tick-survives@" \o e.kind, e.tickExc = "none">>,
       <<"C40.request-completes@" \o e.kind, e.completed>> >>

TInit == tid \in 1..Len(Traces) /\ l = 1 /\ viols = {} /\ done = FALSE
Step == /\ l <= Len(T)
        /\ viols' = AddViols(viols, Failing(Clauses(T[l])), l)
        /\ l' = l + 1 /\ UNCHANGED <<tid, done>>
Finish == /\ l = Len(T) + 1 /\ ~done /\ done' = TRUE /\ Report(Traces[tid].id, l - 1, viols) /\ UNCHANGED <<tid, l, viols>>
TSpec == TInit /\ [][Step \/ Finish]_tvars
=============================================================================
