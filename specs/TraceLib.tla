------------------------------ MODULE TraceLib ------------------------------
(***************************************************************************)
(* Shared machinery of all trace specifications.                           *)
(*                                                                         *)
(* A trace file (path in the environment variable TRACE_FILE) is a JSON    *)
(* array of traces; a trace is a record [id, ev] (plus per-trace           *)
(* parameters) where ev is the sequence of recorded events.  A trace spec  *)
(* is TOTAL: every event leads to a next state.  An event that the design  *)
(* spec does not allow adds the *name of the failing clause* to `viols`    *)
(* (once per clause, with the line number) and validation goes on, so the  *)
(* rest of the trace is still checked.  When a trace is consumed the       *)
(* verdict is printed as <<"@R", trace id, events consumed, viols>>; the   *)
(* harness only reads these lines.                                         *)
(***************************************************************************)
EXTENDS Naturals, Sequences, FiniteSets, TLC, Json, IOUtils

Traces == JsonDeserialize(IOEnv.TRACE_FILE)

(* clauses: a sequence of <<name, holds>>; Failing = the names that do not hold *)
Failing(clauses) == {clauses[i][1] : i \in {j \in DOMAIN clauses : ~clauses[j][2]}}

(* record each failing clause once, with the line at which it first failed *)
AddViols(viols, names, line) ==
    viols \cup {<<n, line>> : n \in {m \in names : ~\E p \in viols : p[1] = m}}

Report(tid, consumed, viols) == PrintT(<<"@R", tid, consumed, viols>>)

(* vacuity guard: a monitor also reports which antecedents of its clauses held at least once in the trace ("witnesses");
   the harness adds them up over the corpus and writes them into the evidence file *)
ReportW(tid, consumed, viols, seen) == PrintT(<<"@R", tid, consumed, viols>>) /\ PrintT(<<"@W", tid, seen>>)

Has(rec, key) == key \in DOMAIN rec
Get(rec, key, default) == IF key \in DOMAIN rec THEN rec[key] ELSE default
=============================================================================
