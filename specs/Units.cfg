CONSTANTS
  GridM = {0, 36}
SPECIFICATION Spec
INVARIANT Trichotomy
INVARIANT Antisymmetric
INVARIANT SameUnitIsPlain
INVARIANT NeqIsNotEq
INVARIANT LeIsLtOrEq
INVARIANT GeIsGtOrEq
CHECK_DEADLOCK FALSE
