-------------------------------- MODULE Units --------------------------------
(***************************************************************************)
(* Unit-aware comparison (C21) as a reference operator.                     *)
(*                                                                          *)
(* A value is [s, m, e, eps]: sign s \in {-1,1}, mantissa m \in Nat,        *)
(* exponent e, and eps \in {-1,0,1} standing for an additional              *)
(* eps * 10^-20 ("differs only beyond float precision").  A unit has a      *)
(* conversion to the reference unit of its quantity: x_ref = (n/d)*10^p * x *)
(* (+ offset for temperature).  Cmp compares the physical quantities        *)
(* exactly using only small integers (TLC integers are 32 bit).             *)
(***************************************************************************)
EXTENDS Integers, Sequences, FiniteSets, TLC

(* <<unit, quantity, n, d, p>> :  x_ref = x * (n/d) * 10^p ; the quantities and units of QUANTITY_UNIT_MAP *)
UnitTable == {
  <<"s", "time", 1, 1, 0>>, <<"min", "time", 6, 1, 1>>, <<"h", "time", 36, 1, 2>>, <<"ms", "time", 1, 1, -3>>,
  <<"m", "length", 1, 1, 0>>, <<"cm", "length", 1, 1, -2>>,
  <<"m**2", "area", 1, 1, 0>>, <<"m2", "area", 1, 1, 0>>, <<"dm2", "area", 1, 1, -2>>, <<"cm2", "area", 1, 1, -4>>,
  <<"kg", "mass", 1, 1, 0>>, <<"g", "mass", 1, 1, -3>>,
  <<"kg/L", "density", 1, 1, 0>>, <<"g/L", "density", 1, 1, -3>>,
  <<"L", "volume", 1, 1, 0>>, <<"mL", "volume", 1, 1, -3>>,
  <<"L/h", "flow", 1, 1, 0>>, <<"L/min", "flow", 6, 1, 1>>, <<"L/d", "flow", 1, 24, 0>>,
  <<"Hz", "frequency", 1, 1, 0>>, <<"kHz", "frequency", 1, 1, 3>>,
  <<"Pa", "pressure", 1, 1, 0>>, <<"pascal", "pressure", 1, 1, 0>>, <<"bar", "pressure", 1, 1, 5>>,
  <<"kg/h", "mass flow rate", 1, 1, 0>>, <<"g/h", "mass flow rate", 1, 1, -3>>, <<"g/min", "mass flow rate", 6, 1, -2>>,
  <<"g/s", "mass flow rate", 36, 1, -1>>,
  <<"mS/cm", "conductivity", 1, 1, 0>>, <<"µS/cm", "conductivity", 1, 1, -3>>,
  <<"AU", "absorbance", 1, 1, 0>>, <<"mAU", "absorbance", 1, 1, -3>>, <<"milliAU", "absorbance", 1, 1, -3>>,
  <<"LMH/bar", "permeability", 1, 1, 0>>, <<"L/m2/h/bar", "permeability", 1, 1, 0>>, <<"L/h/m2/bar", "permeability", 1, 1, 0>>,
  <<"LMH", "flux", 1, 1, 0>>, <<"L/m2/h", "flux", 1, 1, 0>>, <<"L/h/m2", "flux", 1, 1, 0>>,
  <<"mol", "amount_of_substance", 1, 1, 0>>, <<"CV", "column volume", 1, 1, 0>>,
  <<"%", "percentage", 1, 1, 0>>, <<"vol%", "percentage", 1, 1, 0>>, <<"wt%", "percentage", 1, 1, 0>>,
  <<"mol%", "percentage", 1, 1, 0>>,
  <<"none", "none", 1, 1, 0>> }
U == [u \in {t[1] : t \in UnitTable} |-> LET t == CHOOSE x \in UnitTable : x[1] = u IN <<t[2], t[3], t[4], t[5]>>]

(* temperature: 900 * K = A * x + B *)
Temp == [u \in {"K", "degC", "°C", "degF", "°F"} |->
           CASE u = "K" -> <<900, 0>> [] u \in {"degC", "°C"} -> <<900, 245835>> [] OTHER -> <<500, 229835>>]

IsTemp(u) == u \in DOMAIN Temp
QuantityOf(u) == IF IsTemp(u) THEN "temperature" ELSE U[u][1]
SameQuantity(a, b) == QuantityOf(a) = QuantityOf(b)

RECURSIVE Pow10(_)
Pow10(k) == IF k = 0 THEN 1 ELSE 10 * Pow10(k - 1)
RECURSIVE Digits(_)
Digits(c) == IF c < 10 THEN 1 ELSE 1 + Digits(c \div 10)
Sign(x) == IF x > 0 THEN 1 ELSE IF x < 0 THEN -1 ELSE 0

(* compare c1 * 10^x1 with c2 * 10^x2 for naturals c1, c2 < 10^9: -1, 0, 1 *)
CmpPos(c1, x1, c2, x2) ==
    IF c1 = 0 \/ c2 = 0 THEN Sign(c1 - c2)
    ELSE LET m1 == Digits(c1) + x1  m2 == Digits(c2) + x2 IN
         IF m1 # m2 THEN Sign(m1 - m2)
         ELSE IF x1 >= x2 THEN Sign(c1 * Pow10(x1 - x2) - c2) ELSE Sign(c1 - c2 * Pow10(x2 - x1))

(* signed: s1*c1*10^x1 vs s2*c2*10^x2 *)
CmpSigned(s1, c1, x1, s2, c2, x2) ==
    LET t1 == IF c1 = 0 THEN 0 ELSE s1  t2 == IF c2 = 0 THEN 0 ELSE s2 IN
    IF t1 # t2 THEN Sign(t1 - t2)
    ELSE IF t1 = 0 THEN 0 ELSE IF t1 > 0 THEN CmpPos(c1, x1, c2, x2) ELSE CmpPos(c2, x2, c1, x1)

(* linear units: a*fa vs b*fb, cross-multiplied *)
CmpLinear(a, ua, b, ub) ==
    LET fa == U[ua] fb == U[ub]
        main == CmpSigned(a.s, a.m * fa[2] * fb[3], a.e + fa[4], b.s, b.m * fb[2] * fa[3], b.e + fb[4])
    IN IF main # 0 THEN main
       ELSE CmpSigned(a.eps, fa[2] * fb[3], fa[4], b.eps, fb[2] * fa[3], fb[4])     \* the 10^-20 perturbations, scaled

(* temperature: 900K*100 = A*m*10^(e+2) + B*100 ; requires -2 <= e <= 1, m <= 999 *)
TempK(x, u) == Temp[u][1] * x.s * x.m * Pow10(x.e + 2) + Temp[u][2] * 100
CmpTemp(a, ua, b, ub) ==
    LET main == Sign(TempK(a, ua) - TempK(b, ub)) IN
    IF main # 0 THEN main ELSE Sign(a.eps * Temp[ua][1] - b.eps * Temp[ub][1])

Cmp(a, ua, b, ub) == IF IsTemp(ua) THEN CmpTemp(a, ua, b, ub) ELSE CmpLinear(a, ua, b, ub)

(* Is the conversion ratio between two units of one quantity a finite decimal in both directions?  Where it is not     *)
(* (min/h against s, L/d, g/min, degF ...) a decimal implementation cannot represent the converted value exactly.     *)
RECURSIVE Strip25(_)
Strip25(x) == IF x % 2 = 0 THEN Strip25(x \div 2) ELSE IF x % 5 = 0 THEN Strip25(x \div 5) ELSE x
DecimalRatio(ua, ub) ==
    IF IsTemp(ua) THEN Temp[ua][1] = Temp[ub][1]
    ELSE Strip25(U[ua][2] * U[ub][3]) = Strip25(U[ub][2] * U[ua][3])

Holds(op, c) ==
    CASE op = "<" -> c < 0  [] op = "<=" -> c <= 0  [] op = "=" -> c = 0  [] op = "==" -> c = 0
      [] op = ">" -> c > 0  [] op = ">=" -> c >= 0  [] op = "!=" -> c # 0

Ops == {"<", "<=", "=", "==", ">", ">=", "!="}

(* ---- laws of the operator itself, checked by TLC over a value grid (Units.cfg) ---- *)
CONSTANTS GridM
GridE == {-1, 0, 1}
Grid == [s : {-1, 1}, m : GridM, e : GridE, eps : {-1, 0, 1}]
LinearUnits == DOMAIN U \ {"none"}
TempUnits == DOMAIN Temp
Pairs == {<<ua, ub>> \in (LinearUnits \X LinearUnits) \cup (TempUnits \X TempUnits) : SameQuantity(ua, ub)}

VARIABLES pair, va, vb
Init == pair \in Pairs /\ va \in Grid /\ vb \in Grid
Next == UNCHANGED <<pair, va, vb>>
Spec == Init /\ [][Next]_<<pair, va, vb>>

C == Cmp(va, pair[1], vb, pair[2])
Trichotomy == Cardinality({op \in {"<", "=", ">"} : Holds(op, C)}) = 1
Antisymmetric == Cmp(vb, pair[2], va, pair[1]) = -C
SameUnitIsPlain == pair[1] = pair[2] /\ va = vb => C = 0
NeqIsNotEq == Holds("!=", C) = ~Holds("=", C)
LeIsLtOrEq == Holds("<=", C) = (Holds("<", C) \/ Holds("=", C))
GeIsGtOrEq == Holds(">=", C) = (Holds(">", C) \/ Holds("=", C))
=============================================================================
