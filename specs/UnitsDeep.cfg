CONSTANTS
  GridM = {0, 1, 6, 24, 36, 100}
SPECIFICATION Spec
INVARIANT Trichotomy
INVARIANT Antisymmetric
INVARIANT SameUnitIsPlain
INVARIANT NeqIsNotEq
INVARIANT LeIsLtOrEq
INVARIANT GeIsGtOrEq
CHECK_DEADLOCK FALSE
