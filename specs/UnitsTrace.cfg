CONSTANTS
  GridM = {0}
SPECIFICATION TSpec
CHECK_DEADLOCK FALSE
