----------------------------- MODULE UnitsTrace -----------------------------
(* Checks recorded results of the real compare_values / are_comparable against the reference operator Units!Cmp (C21). *)
(* Event kinds:                                                                                                        *)
(*   [k |-> "cmp", op, ua, ub, a, b, res]   res \in {"T", "F"} or the name of the exception class                     *)
(*   [k |-> "comparable", ua, ub, ab, ba]   results of are_comparable(ua, ub) and are_comparable(ub, ua) ("T"/"F"/exc) *)
EXTENDS Units, TraceLib

VARIABLES tid, l, viols, done
tvars == <<pair, va, vb, tid, l, viols, done>>

T == Traces[tid].ev
Known(u) == u \in DOMAIN U \/ u \in DOMAIN Temp
Mixed(ua, ub) == ua # ub /\ QuantityOf(ua) \in {"percentage"}      \* no physical meaning defined between %, vol%, wt%, mol%

CmpClauses(e) ==
    LET c == Cmp(e.a, e.ua, e.b, e.ub)
        want == IF Holds(e.op, c) THEN "T" ELSE "F" IN
    << <<"C21.same-quantity-raises@" \o e.ua \o "~" \o e.ub, e.res \in {"T", "F"}>>,
       <<(IF DecimalRatio(e.ua, e.ub) THEN "C21.cmp@" \o e.ua \o "~" \o e.ub \o ":" \o e.op
                              ELSE "C21.cmp-nondecimal-ratio@" \o e.ua \o "~" \o e.ub), e.res \notin {"T", "F"} \/ e.res = want>> >>

Clauses(e) ==
    IF e.k = "cmp"
    THEN IF Known(e.ua) /\ Known(e.ub) /\ SameQuantity(e.ua, e.ub) /\ ~Mixed(e.ua, e.ub) THEN CmpClauses(e) ELSE <<>>
    ELSE << <<"C21.comparable-symmetric@" \o e.ua \o "~" \o e.ub, e.ab = e.ba>>,
            <<"C21.same-quantity-comparable@" \o e.ua \o "~" \o e.ub,
              Known(e.ua) /\ Known(e.ub) /\ SameQuantity(e.ua, e.ub) /\ ~Mixed(e.ua, e.ub) => e.ab = "T">>,
            <<"C21.different-quantity-not-comparable@" \o e.ua \o "~" \o e.ub,
              Known(e.ua) /\ Known(e.ub) /\ ~SameQuantity(e.ua, e.ub) => e.ab # "T">> >>

TInit == /\ tid \in 1..Len(Traces) /\ l = 1 /\ viols = {} /\ done = FALSE
         /\ pair = <<"s", "s">> /\ va = [s |-> 1, m |-> 0, e |-> 0, eps |-> 0] /\ vb = va

Step == /\ l <= Len(T)
        /\ viols' = AddViols(viols, Failing(Clauses(T[l])), l)
        /\ l' = l + 1 /\ UNCHANGED <<pair, va, vb, tid, done>>

Finish == /\ l = Len(T) + 1 /\ ~done /\ done' = TRUE
          /\ Report(Traces[tid].id, l - 1, viols)
          /\ UNCHANGED <<pair, va, vb, tid, l, viols>>

TSpec == TInit /\ [][Step \/ Finish]_tvars
=============================================================================
