CONSTANTS Users = {"u1", "u2"}  Roles = {"r1", "r2"}  Units = {"e1", "e2"}
SPECIFICATION Spec
INVARIANT OnlyWithAccess
INVARIANT OnlySelectedTopic
INVARIANT OnlySelectedUnit
INVARIANT NeverToTheContributor
INVARIANT AllDevicesOfAnEntitledUser
INVARIANT OpenUnitsNeedNoRole
