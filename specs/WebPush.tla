------------------------------- MODULE WebPush -------------------------------
(***************************************************************************)
(* Who is entitled to a push notification about a process unit (C33).       *)
(*                                                                          *)
(* A user's stored preferences carry the roles recorded for that user, a    *)
(* scope, the selected topics and (for the scope "specific") a list of      *)
(* units.  A subscription belongs to a user (one per device).  A            *)
(* notification on `topic` about `unit` goes to every subscription of every *)
(* entitled user, once, except that a new-contributor notification is not   *)
(* sent to the contributor it is about.                                     *)
(***************************************************************************)
EXTENDS Naturals, FiniteSets, Sequences, TLC, WebPushDef

-----------------------------------------------------------------------------
(* A small universe for TLC: the laws the definition must satisfy *)
CONSTANTS Users, Roles, Units
Scopes == {"access", "contributed", "specific"}
Topics == {"run_start", "new_contributor"}

VARIABLES prefs, subs, q      \* q = the notification being published
vars == <<prefs, subs, q>>

None == [user |-> "", roles |-> {}, scope |-> "none", topics |-> {}, units |-> {}]
PrefsOf(u) == [user : {u}, roles : {{}, {"r1"}, Roles}, scope : Scopes, topics : SUBSET Topics, units : {{}, {"e1"}}] \cup {None}

Init == /\ \E f \in [Users -> UNION {PrefsOf(u) : u \in Users}] :
              /\ \A u \in Users : f[u] \in PrefsOf(u)
              /\ prefs = {f[u] : u \in Users} \ {None}
        /\ subs = {[id |-> 1, user |-> "u1"], [id |-> 2, user |-> "u1"], [id |-> 3, user |-> "u2"]}
        /\ q \in [topic : Topics, unit : Units, required : SUBSET Roles, contributors : SUBSET Users, about : Users \cup {""}]
Next == UNCHANGED vars
Spec == Init /\ [][Next]_vars

R == Recipients(prefs, subs, q.topic, q.unit, q.required, q.contributors, q.about)
PrefOf(u) == IF \E p \in prefs : p.user = u THEN CHOOSE p \in prefs : p.user = u ELSE None

OnlyWithAccess == \A s \in subs : s.id \in R => HasAccess(q.required, PrefOf(s.user).roles)
OnlySelectedTopic == \A s \in subs : s.id \in R => q.topic \in PrefOf(s.user).topics
OnlySelectedUnit ==
    \A s \in subs : s.id \in R =>
        LET p == PrefOf(s.user) IN
        \/ p.scope = "access"
        \/ p.scope = "contributed" /\ s.user \in q.contributors
        \/ p.scope = "specific" /\ q.unit \in p.units
NeverToTheContributor == \A s \in subs : (q.topic = "new_contributor" /\ q.about # "" /\ s.user = q.about) => s.id \notin R
AllDevicesOfAnEntitledUser ==
    \A s, t \in subs : (s.user = t.user /\ ~(q.topic = "new_contributor" /\ s.user = q.about)) => (s.id \in R <=> t.id \in R)
OpenUnitsNeedNoRole == q.required = {} => \A s \in subs : (\E p \in prefs : p.user = s.user /\ q.topic \in p.topics /\ p.scope = "access"
                                                             /\ ~(q.topic = "new_contributor" /\ s.user = q.about)) => s.id \in R
=============================================================================
