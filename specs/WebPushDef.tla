----------------------------- MODULE WebPushDef -----------------------------
(* The entitlement relation of C33, shared by the design spec WebPush.tla and the trace spec WebPushTrace.tla. *)
EXTENDS Naturals, FiniteSets, Sequences

HasAccess(required, roles) == required = {} \/ required \cap roles # {}

(* prefs: a set of records [user, roles, scope, topics, units]; at most one per user *)
EntitledUsers(prefs, topic, unit, required, contributors) ==
    {p.user : p \in {q \in prefs :
        /\ topic \in q.topics
        /\ HasAccess(required, q.roles)
        /\ CASE q.scope = "access" -> TRUE
             [] q.scope = "contributed" -> q.user \in contributors
             [] q.scope = "specific" -> unit \in q.units
             [] OTHER -> FALSE}}

(* subs: a set of records [id, user] *)
Recipients(prefs, subs, topic, unit, required, contributors, about) ==
    {s.id : s \in {x \in subs : /\ x.user \in EntitledUsers(prefs, topic, unit, required, contributors)
                                /\ ~(topic = "new_contributor" /\ about # "" /\ x.user = about)}}

=============================================================================
