---------------------------- MODULE WebPushTrace ----------------------------
(***************************************************************************)
(* Validates recorded calls of the real WebPushPublisher.publish_message    *)
(* against WebPushDef!Recipients (C33).  One event per call:                *)
(*  [e |-> "publish", topic, unit, required, contributors, about,            *)
(*   prefs |-> <<[user, roles, scope, topics, units]>>,                       *)
(*   subs |-> <<[id, user]>>, posted |-> <<subscription ids in call order>>] *)
(* The database content is what the repository stored through the real      *)
(* WebPushRepository; `posted` is what reached the (stubbed) HTTP post.     *)
(***************************************************************************)
EXTENDS Integers, Sequences, FiniteSets, TLC, TraceLib, WebPushDef

VARIABLES tid, l, viols, done
tvars == <<tid, l, viols, done>>
T == Traces[tid].ev
SetOfSeq(q) == {q[i] : i \in DOMAIN q}

Prefs(e) == {[user |-> p.user, roles |-> SetOfSeq(p.roles), scope |-> p.scope, topics |-> SetOfSeq(p.topics), units |-> SetOfSeq(p.units)]
             : p \in SetOfSeq(e.prefs)}
Subs(e) == {[id |-> s.id, user |-> s.user] : s \in SetOfSeq(e.subs)}

Clauses(e) ==
    LET prefs == Prefs(e) subs == Subs(e)
        required == SetOfSeq(e.required) contributors == SetOfSeq(e.contributors)
        want == Recipients(prefs, subs, e.topic, e.unit, required, contributors, e.about)
        got == SetOfSeq(e.posted)
        UserOf(i) == (CHOOSE s \in subs : s.id = i).user
        PrefOf(u) == CHOOSE p \in prefs : p.user = u
        extra == got \ want
        Why(i) == LET p == PrefOf(UserOf(i)) IN
                  IF ~HasAccess(required, p.roles) THEN "without-access"
                  ELSE IF e.topic \notin p.topics THEN "topic-not-selected"
                  ELSE IF e.topic = "new_contributor" /\ UserOf(i) = e.about THEN "to-the-contributor-itself"
                  ELSE "unit-not-selected-" \o p.scope
    IN
    << <<"C33.only-entitled@" \o (IF extra = {} THEN "" ELSE Why(CHOOSE i \in extra : TRUE)), extra = {}>>,
       <<"C33.every-entitled-subscription@" \o e.scopeOfFirstMissing, want \subseteq got>>,
       <<"C33.at-most-once", Cardinality(got) = Len(e.posted)>>,
       <<"C33.publish-does-not-raise", e.exc = "none">> >>

TInit == tid \in 1..Len(Traces) /\ l = 1 /\ viols = {} /\ done = FALSE
Step == /\ l <= Len(T)
        /\ viols' = AddViols(viols, Failing(Clauses(T[l])), l)
        /\ l' = l + 1 /\ UNCHANGED <<tid, done>>
Finish == /\ l = Len(T) + 1 /\ ~done /\ done' = TRUE /\ Report(Traces[tid].id, l - 1, viols) /\ UNCHANGED <<tid, l, viols>>
TSpec == TInit /\ [][Step \/ Finish]_tvars
=============================================================================
