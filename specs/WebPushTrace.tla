---------------------------- MODULE WebPushTrace ----------------------------
(***************************************************************************)
(* Validates recorded calls of the real WebPushPublisher.publish_message    *)
(* against WebPushDef!Recipients (C33).  A trace is a history on one        *)
(* database, one event per call of the real repository / publisher:         *)
(*  [e |-> "store", pref |-> [user, roles, scope, topics, units]]            *)
(*  [e |-> "subscribe", id, user]                                            *)
(*  [e |-> "publish", topic, unit, required, contributors, about,            *)
(*   posted |-> <<subscription ids in call order>>, exc]                     *)
(* The spec rebuilds the stored preferences from the store events (a user's *)
(* roles and choices change over time and are stored again under the same   *)
(* user id: the last store wins); `posted` is what reached the (stubbed)    *)
(* HTTP post.                                                               *)
(***************************************************************************)
EXTENDS Integers, Sequences, FiniteSets, TLC, TraceLib, WebPushDef

VARIABLES prefs, subs,      \* what the recorded store / subscribe calls have put into the database: the last store of a user wins
          tid, l, viols, done
tvars == <<prefs, subs, tid, l, viols, done>>
T == Traces[tid].ev
SetOfSeq(q) == {q[i] : i \in DOMAIN q}

Norm(p) == [user |-> p.user, roles |-> SetOfSeq(p.roles), scope |-> p.scope, topics |-> SetOfSeq(p.topics), units |-> SetOfSeq(p.units)]

Clauses(e) ==
    LET required == SetOfSeq(e.required) contributors == SetOfSeq(e.contributors)
        want == Recipients(prefs, subs, e.topic, e.unit, required, contributors, e.about)
        got == SetOfSeq(e.posted)
        UserOf(i) == (CHOOSE s \in subs : s.id = i).user
        PrefOf(u) == CHOOSE p \in prefs : p.user = u
        extra == got \ want
        Why(i) == IF ~\E s \in subs : s.id = i THEN "unknown-subscription"
                  ELSE IF ~\E p \in prefs : p.user = UserOf(i) THEN "user-without-preferences"
                  ELSE LET p == PrefOf(UserOf(i)) IN
                  IF ~HasAccess(required, p.roles) THEN "without-access"
                  ELSE IF e.topic \notin p.topics THEN "topic-not-selected"
                  ELSE IF e.topic = "new_contributor" /\ UserOf(i) = e.about THEN "to-the-contributor-itself"
                  ELSE "unit-not-selected-" \o p.scope
    IN
    << <<"C33.only-entitled@" \o (IF extra = {} THEN "" ELSE Why(CHOOSE i \in extra : TRUE)), extra = {}>>,
       <<"C33.every-entitled-subscription@" \o e.scopeOfFirstMissing, want \subseteq got>>,
       <<"C33.at-most-once", Cardinality(got) = Len(e.posted)>>,
       <<"C33.publish-does-not-raise", e.exc = "none">> >>

TInit == tid \in 1..Len(Traces) /\ l = 1 /\ viols = {} /\ done = FALSE /\ prefs = {} /\ subs = {}
Step == /\ l <= Len(T)
        /\ LET e == T[l] IN
           CASE e.e = "store" ->        \* WebPushRepository.store_notifications_preferences: replaces what was stored for that user
                  /\ prefs' = {p \in prefs : p.user # e.pref.user} \cup {Norm(e.pref)} /\ UNCHANGED <<subs, viols>>
             [] e.e = "subscribe" ->    \* store_subscription: one more device of that user
                  /\ subs' = subs \cup {[id |-> e.id, user |-> e.user]} /\ UNCHANGED <<prefs, viols>>
             [] OTHER ->
                  /\ viols' = AddViols(viols, Failing(Clauses(e)), l) /\ UNCHANGED <<prefs, subs>>
        /\ l' = l + 1 /\ UNCHANGED <<tid, done>>
Finish == /\ l = Len(T) + 1 /\ ~done /\ done' = TRUE /\ Report(Traces[tid].id, l - 1, viols) /\ UNCHANGED <<prefs, subs, tid, l, viols>>
TSpec == TInit /\ [][Step \/ Finish]_tvars
=============================================================================
