#!/usr/bin/env python3
"""Print the prompt for a mutation-seeding sub-agent: the property text + its scratch worktree, nothing from /verif."""
import json, sys
pid = sys.argv[1]; n = sys.argv[2] if len(sys.argv) > 2 else "a"
p = next(json.loads(l) for l in open('/verif/properties.jsonl') if json.loads(l)['id'] == pid)
wt = f"/tmp/wt/{pid}{n}"
print(f"""You are helping test a verification framework for the Python project Open-Pectus (a process-control engine that interprets the P-code DSL tick by tick, drives hardware registers and reports to an aggregator). Your job: produce ONE realistic, subtle code change (a "seeded defect") that BREAKS the semantic property below while the project still imports/compiles and its existing test suite still passes, plus a small demonstration that fails with your change and passes without it.

Your private scratch git worktree of the repository is {wt} (already created, detached HEAD). Work ONLY inside it. Do not touch /repo, do not read or write anything under /verif, do not use the network (there is none).

PROPERTY {p['id']}: {p['title']}
Statement: {p['statement']}
Quantified over: {p['quantifier']['text']}
Code it is anchored in: {', '.join(p['anchors']['files'])}

Requirements for the change:
- It must be a plausible mistake a developer could make (an off-by-one, a wrong condition, a missing reset, a reordered statement, a cache not invalidated, two sites that each look fine alone...), NOT a gross break. It must need something specific to manifest: a particular interleaving, a fault at a particular point, a multi-step sequence of operations, an unusual input, or two cooperating sites. Changes that ordinary use or the simplest happy path would expose at once are NOT wanted.
- Only modify files under openpectus/ that are not tests (do not edit, add or delete tests in the diff). Keep the diff small (typically 1-15 lines).
- The existing tests must still pass with the change. Run the relevant test files yourself from the worktree root, e.g.:
    cd {wt} && PYTHONPATH={wt} /venv/bin/python -m pytest -q -p no:cacheprovider -x openpectus/test/engine/test_hardware.py
  (first check `cd {wt} && PYTHONPATH={wt} /venv/bin/python -c "import openpectus; print(openpectus.__file__)"` prints a path inside {wt}). Before finishing, run the whole unit-test tree that can be affected (at least openpectus/test/engine, openpectus/test/lang, openpectus/test/aggregator, openpectus/test/protocol as relevant; use `-n 4` from pytest-xdist to speed up, and `--deselect`/ignore openpectus/test/integration and openpectus/test/engine/test_labjack_hardware.py and test_validate_demo_uod.py which fail even without any change because there is no network). Two tests are known to be flaky on their own (test_tag_block_time_nested_blocks, test_watch_has_scope_time) - ignore those.
- Write a demonstration script {wt}/demo_{pid}.py (plain Python run as `cd {wt} && PYTHONPATH={wt} /venv/bin/python demo_{pid}.py`, exit code 0 = property holds, exit code 1 = property violated, printing what it observed). It must drive the REAL code (no mocks of the code under test), exit 1 with your change applied and exit 0 on the unchanged code (verify both: use `git stash` / `git stash pop`, or `git diff > /tmp/x.diff; git checkout -- openpectus; ...; git apply /tmp/x.diff`).
- When done, leave the change applied in the worktree (uncommitted) and write these files in the worktree root:
    patch.diff   (output of `git diff -- openpectus`)
    demo_{pid}.py
    meta.json    with keys: property, summary (one paragraph: what was changed and why it breaks the property), needs (what specific sequence/interleaving/input is needed to make it manifest), tests_run (the exact pytest commands you ran and their pass/fail counts), demo_without_change (exit code), demo_with_change (exit code)
Final answer: a short report with the diff, what it needs to manifest, and the test results. Do not explain the verification framework; you know nothing about it.""")
