#!/bin/sh
# tools/confirm_seed.sh <worktree> <prop> : confirm a sub-agent's seeded change myself:
#  demo exits 1 with the change and 0 without it; the existing unit tests pass with the change.
wt="$1"; pid="$2"
cd "$wt" || exit 2
export PYTHONPATH="$wt" PYTHONHASHSEED=0
git diff -- openpectus > /tmp/wt/confirm_$$.diff
[ -s /tmp/wt/confirm_$$.diff ] || { echo "no change in worktree"; exit 2; }
timeout 600 /venv/bin/python demo_$pid.py > /tmp/wt/confirm_$$.with 2>&1; with=$?
git apply -R /tmp/wt/confirm_$$.diff
timeout 600 /venv/bin/python demo_$pid.py > /tmp/wt/confirm_$$.without 2>&1; without=$?
git apply /tmp/wt/confirm_$$.diff
echo "demo with change: exit $with ; without: exit $without"
timeout 1500 /venv/bin/python -m pytest -q -p no:cacheprovider -n 6 --reruns 2 --timeout=600 openpectus/test/engine openpectus/test/lang openpectus/test/aggregator openpectus/test/protocol openpectus/test/lsp \
  --ignore=openpectus/test/engine/test_labjack_hardware.py --ignore=openpectus/test/engine/test_validate_demo_uod.py 2>&1 | tail -4
rm -f /tmp/wt/confirm_$$.*
