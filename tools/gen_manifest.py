#!/venv/bin/python
"""Regenerate MANIFEST.json from harness/registry.py and properties.jsonl."""
import json
import os
import sys

ROOT = os.path.dirname(os.path.dirname(os.path.abspath(__file__)))
sys.path.insert(0, ROOT)
from harness import registry  # noqa: E402

props = [json.loads(line) for line in open(os.path.join(ROOT, "properties.jsonl"))]
NA = json.load(open(os.path.join(ROOT, "tools", "not_applicable.json")))
checks = []
for p in props:
    pid = p["id"]
    if pid not in registry.CLAIMS:
        continue
    level, technique, text, note, ref = registry.CLAIMS[pid]
    checks.append({
        "property_id": pid,
        "quick_cmd": f"./check {pid} --tier quick",
        "thorough_cmd": f"./check {pid} --tier thorough",
        "evidence_file": f"/verif/evidence/{pid}.json",
        "replay_cmd_template": f"./check {pid} --replay {{path}}",
        "engine": "tlc",
        "level_claimed": {"category": level, "text": text, "design_ref": "DESIGN.md section " + ref},
        "level_note": note,
        "technique": technique,
    })
na = [{"property_id": p["id"], "reason": NA.get(p["id"], "check not built yet in this round (see DESIGN.md section 7 for the plan)")}
      for p in props if p["id"] not in registry.CLAIMS]
man = {
    "version": 1,
    "setup_cmd": "./setup.sh",
    "hooks": {
        "guard": "OPENPECTUS_VERIF",
        "enable": "checks import /repo's working tree with OPENPECTUS_VERIF=1 in the environment (pure Python, nothing to build)",
        "baseline_off_cmd": "cd /repo && env -u OPENPECTUS_VERIF /venv/bin/python -m pytest -ra -q -p no:cacheprovider --timeout=900 --continue-on-collection-errors",
        "source_commits": json.load(open(os.path.join(ROOT, "tools", "hook_commits.json"))),
        "add_only": True,
    },
    "engines": [{"name": "tlc", "path": "/opt/veriftools/tla/tla2tools.jar",
                 "serves_properties": [c["property_id"] for c in checks],
                 "kind_free_text": "TLC 1.8 explicit-state model checker: design specs exhaustively, trace specs on recorded executions"}],
    "checks": checks,
    "not_applicable": na,
    "notes": "All checks: ./check <id> --tier quick|thorough (honours VERIF_SEED / VERIF_TIER). Specs in specs/, harness in harness/. "
             "known_findings.json lists recorded findings and fixes; it is never written at run time.",
}
json.dump(man, open(os.path.join(ROOT, "MANIFEST.json"), "w"), indent=1)
print(f"{len(checks)} checks, {len(na)} not claimed")
