#!/usr/bin/env python3
"""Regenerate the generated tables of DESIGN.md (between the BEGIN/END GENERATED markers): claimed checks, repository fixes,
known findings (grouped), seeded changes and which check reports them."""
import glob, json, os, re, sys
sys.path.insert(0, "/verif")
from harness import registry

kf = json.load(open("/verif/known_findings.json"))
out = []
out.append("### G1. Claimed checks\n")
out.append("| id | level | deciding specs / technique |\n|---|---|---|")
for pid in sorted(registry.CLAIMS):
    lvl, tech = registry.CLAIMS[pid][0], registry.CLAIMS[pid][1]
    out.append(f"| {pid} | {lvl} | {tech} |")
na = json.load(open("/verif/tools/not_applicable.json"))
out.append("\nNot applicable: " + "; ".join(f"{k} ({v[:160]})" for k, v in (na.items() if isinstance(na, dict) else [(x['id'], x['reason']) for x in na])))
props = [json.loads(l)["id"] for l in open("/verif/properties.jsonl")]
missing = [p for p in props if p not in registry.CLAIMS and p not in (na if isinstance(na, dict) else [x['id'] for x in na])]
out.append("\nNot claimed yet: " + (", ".join(missing) or "none"))
out.append("\n### G2. Genuine defects repaired in /repo (one `fix:` commit each)\n")
out.append("| property | commit | what failed |\n|---|---|---|")
for f in kf["fixed"]:
    out.append(f"| {f['property']} | {f['commit'][:8]} | {f['what']} |")
out.append("\n### G3. Known findings (recorded, not repaired)\n")
groups = {}
for f in kf["findings"]:
    groups.setdefault((f["property"], f["what"]), []).append(f["key"])
out.append("| property | keys | what fails |\n|---|---|---|")
for (prop, what), keys in groups.items():
    ks = ", ".join(f"`{k}`" for k in keys[:4]) + (f" … ({len(keys)} keys)" if len(keys) > 4 else "")
    out.append(f"| {prop} | {ks} | {what} |")
out.append("\n### G4. Seeded changes (sub-agents, confirmed) and the check that reports them\n")
out.append("| seed | property | change | reported by |\n|---|---|---|---|")
for d in sorted(glob.glob("/verif/seeded/*/meta.json")):
    m = json.load(open(d))
    name = os.path.basename(os.path.dirname(d))
    summ = re.sub(r"\s+", " ", (m.get("summary") or ""))[:260]
    out.append(f"| {name} | {m.get('property')} | {summ} | {m.get('detected_by')} |")
text = "\n".join(out) + "\n"
p = "/verif/DESIGN.md"
s = open(p).read()
b, e = "<!-- BEGIN GENERATED -->", "<!-- END GENERATED -->"
if b in s:
    s = s[:s.index(b) + len(b)] + "\n" + text + s[s.index(e):]
else:
    raise SystemExit("markers missing in DESIGN.md")
open(p, "w").write(s)
print("DESIGN.md tables regenerated:", len(kf["fixed"]), "fixes,", len(kf["findings"]), "finding keys")
