#!/usr/bin/env python3
"""tools/keep_seed.py <worktree> <prop> <name> <caught-by> <confirm-note> : store a confirmed seeded change under seeded/<name>/"""
import json, os, shutil, sys
wt, pid, name, caught, note = sys.argv[1:6]
dst = f"/verif/seeded/{name}"
os.makedirs(dst, exist_ok=True)
shutil.copy(f"{wt}/patch.diff", dst)
shutil.copy(f"{wt}/demo_{pid}.py", dst)
meta = json.load(open(f"{wt}/meta.json"))
out = {"property": pid, "summary": meta.get("summary"), "needs": meta.get("needs"),
       "agent_tests_run": meta.get("tests_run"), "confirmed_by_me": note,
       "detected_by": caught}
json.dump(out, open(f"{dst}/meta.json", "w"), indent=1)
print("kept", dst)
