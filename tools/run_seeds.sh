#!/bin/sh
# tools/run_seeds.sh <seed>... : run every claimed check's quick tier under other seeds (robustness of the known-finding keys)
[ -n "$VP_RUN_REPO" ] && export VERIF_REPO="$VP_RUN_REPO"
ids=$(/venv/bin/python -c "import json; print(' '.join(c['property_id'] for c in json.load(open('MANIFEST.json'))['checks']))")
for seed in "$@"; do
  for p in $ids; do
    out=$(VERIF_SEED=$seed timeout 3000 ./check "$p" --tier quick 2>&1 | grep -E "^(VIOLATION|MACHINERY)|more failing" | cut -c1-300)
    [ -n "$out" ] && { echo "== seed $seed $p"; echo "$out"; }
  done
  echo "seed $seed done"
done
