#!/bin/sh
# tools/run_thorough.sh [ids...] : run the thorough tier of the given (default: all claimed) checks one after the other and
# print one verdict line each. Meant for `vp run --with-repo -- sh tools/run_thorough.sh` (uses $VP_RUN_REPO as the repository).
[ -n "$VP_RUN_REPO" ] && export VERIF_REPO="$VP_RUN_REPO"
ids="$@"
[ -z "$ids" ] && ids=$(/venv/bin/python -c "import json; print(' '.join(c['property_id'] for c in json.load(open('MANIFEST.json'))['checks']))")
for p in $ids; do
  start=$(date +%s)
  out=$(timeout 14000 ./check "$p" --tier thorough 2>&1 | grep -E "^(VIOLATION|OK|MACHINERY|KNOWN-FINDING)" | cut -c1-220)
  echo "== $p ($(( $(date +%s) - start )) s)"; echo "$out"
done
