#!/bin/sh
# tools/try_seed.sh <patch.diff> <prop> [<prop> ...] : apply a seeded change to /repo, run the quick checks, undo it.
patch="$1"; shift
cd /repo || exit 2
git diff --quiet || { echo "/repo has uncommitted changes"; exit 2; }
git apply "$patch" || exit 2
for p in "$@"; do
  ( cd /verif && timeout 900 ./check "$p" --tier "${TIER:-quick}" 2>&1 | grep -E "^(VIOLATION|OK|KNOWN-FINDING|MACHINERY|  clause)" | cut -c1-400; echo "exit=$?" )
done
git -C /repo checkout -- . 
git -C /repo status --short | head
