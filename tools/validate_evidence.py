#!/usr/bin/env python3-vt
"""Validate every evidence/<id>.json against /root/.vp/EVIDENCE.schema.json (jsonschema from the wheelhouse if available)."""
import glob, json, sys
schema = json.load(open("/root/.vp/EVIDENCE.schema.json"))
import jsonschema
bad = 0
for f in sorted(glob.glob("/verif/evidence/*.json")):
    try:
        jsonschema.validate(json.load(open(f)), schema)
    except Exception as ex:
        bad += 1
        print(f, "INVALID:", str(ex).splitlines()[0][:200])
print("validated", len(glob.glob('/verif/evidence/*.json')), "files,", bad, "invalid")
