#!/venv/bin/python
"""tools/viols.py <prop> : list every failing clause of the last run with one example (from /verif/replays/<prop>)"""
import json, sys, glob, os
prop = sys.argv[1]
for f in sorted(glob.glob(f"/verif/replays/{prop}/*.json")):
    d = json.load(open(f))
    r = d.get("replay", d)
    ev = r.get("event", {})
    small = {k: v for k, v in ev.items() if k not in ("rl", "mstate", "preF", "postF", "preM", "postM", "desc", "tags", "ch", "prefs", "subs")}
    print("==", os.path.basename(f)[:-5], "| case", d.get("case"))
    if len(sys.argv) > 2:
        print("   method:", " / ".join(r.get("method", [])))
        print("   reqs:", [(i, s["req"]) for i, s in enumerate(r.get("steps", [])) if s.get("req")][:12])
        print("   line", r.get("line"), small)
